package main

import (
	"encoding/binary"
	"fmt"
	"strings"

	. "verifh/hc"
)

func genChunks14(r *Rand) []int {
	n := 1 + r.Intn(3)
	c := make([]int, n)
	for i := range c {
		if r.Intn(6) == 0 {
			c[i] = 4096
		} else {
			c[i] = 1 + r.Intn(17)
		}
	}
	return c
}

func genData(r *Rand, n int) []byte {
	b := make([]byte, n)
	switch r.Pick(3, 3, 2) {
	case 0: // zeros
	case 1:
		for i := range b {
			b[i] = byte(r.U64())
		}
	case 2: // sparse
		for i := range b {
			if r.Intn(5) == 0 {
				b[i] = byte(1 + r.Intn(255))
			}
		}
	}
	return b
}

// genMessage: segment counts 1..600 with the decoder's limit (513) as a boundary, segment
// sizes in words including 0.
func genMessage(r *Rand, big bool) [][]byte {
	var nseg int
	switch r.Pick(30, 30, 15, 6, 3, 4) {
	case 0:
		nseg = 1
	case 1:
		nseg = 2 + r.Intn(3)
	case 2:
		nseg = 5 + r.Intn(16)
	case 3:
		nseg = []int{511, 512, 513}[r.Intn(3)]
	case 4:
		nseg = []int{514, 515, 600}[r.Intn(3)]
	case 5:
		nseg = 1 + r.Intn(600)
	}
	segs := make([][]byte, nseg)
	for i := range segs {
		var w int
		switch r.Pick(15, 25, 35, 15, 2) {
		case 0:
			w = 0
		case 1:
			w = 1
		case 2:
			w = 2 + r.Intn(7)
		case 3:
			w = 9 + r.Intn(32)
		case 4:
			w = 100 + r.Intn(1900)
			if !big || nseg > 8 {
				w = 1 + r.Intn(3)
			}
		}
		if nseg > 40 {
			w = r.Pick(6, 3, 1)
		}
		segs[i] = genData(r, 8*w)
	}
	return segs
}

func hdrLen(nseg int) int { return ((nseg+1)*4 + 7) &^ 7 }

func frameLen(segs [][]byte) int {
	n := hdrLen(len(segs))
	for _, s := range segs {
		n += len(s)
	}
	return n
}

func opsN(reuse bool, n int) string {
	var o []string
	if reuse {
		o = append(o, "r")
	}
	for i := 0; i < n; i++ {
		o = append(o, "d")
	}
	return strings.Join(o, ",")
}

func le32(v uint32) []byte {
	b := make([]byte, 4)
	binary.LittleEndian.PutUint32(b, v)
	return b
}

// hostile header: count word, size words, optional padding and a little data
func hostileHeader(r *Rand) []byte {
	counts := []uint32{0, 1, 2, 3, 511, 512, 513, 514, 1000, 1 << 16, 1<<30 - 2, 1<<30 - 1, 1 << 31, 1<<32 - 1}
	c := counts[r.Intn(len(counts))]
	if r.Intn(4) == 0 {
		c = uint32(r.U64())
	}
	sizes := []uint32{0, 1, 2, 1<<29 - 1, 1 << 29, 1<<29 + 1, 1<<31 - 1, 1 << 31, 1<<32 - 1, 1 << 23, 1<<23 - 1, 1<<23 - 2, 1<<23 + 1,
		1 << 22, 1 << 20}
	b := le32(c)
	n := int(c) + 1
	if c > 700 {
		n = 1 + r.Intn(20)
	}
	if r.Intn(8) == 0 { // table cut short
		n = r.Intn(n + 1)
	}
	small := r.Intn(3) == 0
	for i := 0; i < n; i++ {
		s := sizes[r.Intn(len(sizes))]
		if small || r.Intn(3) == 0 {
			s = uint32(r.Intn(4))
		}
		b = append(b, le32(s)...)
	}
	if len(b)%8 != 0 && r.Intn(6) != 0 {
		b = append(b, le32(uint32(r.Intn(2))*uint32(r.U64()))...)
	}
	b = append(b, genData(r, r.Intn(40))...)
	return b
}

func generate(do func(string), r *Rand, tier string) {
	nSeq, nHostile, shortCut := 120, 400, 110
	big := false
	if tier == "thorough" {
		nSeq, nHostile, shortCut = 1000, 6000, 300
		big = true
	}

	// ---- header arithmetic through the hooks
	for _, n := range []uint64{0, 1, 2, 3, 4, 510, 511, 512, 513, 514, 1 << 16, 1 << 29, 1<<30 - 2, 1<<30 - 1, 1 << 30, 1<<31 - 1,
		1 << 31, 1<<32 - 2, 1<<32 - 1} {
		do(fmt.Sprintf("hdrsize %d", n))
	}
	for i := 0; i < 40; i++ {
		do(fmt.Sprintf("hdrsize %d", uint32(r.U64())))
	}
	for _, s := range []uint32{0, 1, 1<<29 - 1, 1 << 29, 1<<31 - 1, 1 << 31, 1<<32 - 1} {
		hb := append(append(le32(1), le32(s)...), append(le32(7), le32(0)...)...)
		for _, i := range []uint64{0, 1, 2, 3, 1<<30 - 2, 1<<30 - 1, 1 << 30, 1<<30 + 1, 1 << 31, 1<<32 - 1} {
			do(fmt.Sprintf("segsize %s %d", fmtBytes(hb), i))
		}
		do("totalsize " + fmtBytes(hb))
	}

	// ---- degenerate messages
	do("marshal m none")
	do("encode 0 m none")
	do("encode 1 m none")
	do("unmarshal -")
	do("unmarshalpacked -")
	do("marshalpacked m none")
	do("decode 0 0 1 d,d -")
	do("decode 1 0 1 d,d -")
	do("decode 0 0 1 r,d,d -")
	for n := 1; n < 8; n++ {
		do(fmt.Sprintf("unmarshal %s", fmtBytes(genData(r, n))))
		do(fmt.Sprintf("decode 0 0 3 d,d z%d", n))
	}
	// unaligned segments: Marshal rejects them; what does Encode do?
	for _, n := range []int{1, 4, 7, 9, 12, 15, 17} {
		s := fmtSegs([][]byte{genData(r, n)})
		do("marshal s " + s)
		do("marshal m " + s)
		do("encode 0 m " + s)
		do("encode 1 m " + s)
		s2 := fmtSegs([][]byte{genData(r, 8), genData(r, n), genData(r, 16)})
		do("marshal m " + s2)
		do("encode 0 m " + s2)
		do("encode 1 m " + s2)
	}

	// ---- exact and just-over limit frames with the default limit (64 MiB): the header alone
	// makes the decoder allocate; no data follows
	for _, w := range []uint32{1<<23 - 2, 1<<23 - 1, 1 << 23} {
		hb := append(le32(0), le32(w)...)
		do("decode 0 0 4096 d,d " + fmtBytes(hb))
		do("decode 0 0 4096 r,d,d " + fmtBytes(hb))
	}
	{
		hb := append(append(le32(1), le32(1<<22)...), append(le32(1<<22-2), le32(0)...)...)
		do("decode 0 0 4096 d,d " + fmtBytes(hb))
		hb = append(append(le32(1), le32(1<<22)...), append(le32(1<<22-1), le32(0)...)...)
		do("decode 0 0 4096 d,d " + fmtBytes(hb))
	}

	// ---- message sequences
	for q := 0; q < nSeq; q++ {
		k := 1 + r.Intn(4)
		var msgs [][][]byte
		var stream, pstream []byte
		maxFrame := 0
		ok := true
		for j := 0; j < k; j++ {
			m := genMessage(r, big && q%7 == 0)
			ar := "m"
			if len(m) == 1 && r.Bool() {
				ar = "s"
			}
			msgs = append(msgs, m)
			ss := fmtSegs(m)
			do("encode 0 " + ar + " " + ss)
			do("marshal " + ar + " " + ss)
			if frameLen(m) <= 6000 {
				do("encode 1 " + ar + " " + ss)
				do("marshalpacked " + ar + " " + ss)
			}
			b, err := encodeBytes(false, ar, m)
			if err != nil {
				ok = false
				break
			}
			pb, err := encodeBytes(true, ar, m)
			if err != nil {
				ok = false
				break
			}
			do("unmarshal " + fmtBytes(b))
			// truncated input to Unmarshal: every prefix of short frames, else around the header
			// end, the last word and random points
			if len(b) <= shortCut/3 {
				for cut := 1; cut < len(b); cut++ {
					do("unmarshal " + fmtBytes(b[:cut]))
				}
			} else {
				h := hdrLen(len(m))
				for _, cut := range []int{4, 8, h - 1, h, h + 1, len(b) - 9, len(b) - 8, len(b) - 7, len(b) - 1, r.Intn(len(b)), r.Intn(len(b))} {
					if cut > 0 && cut < len(b) {
						do("unmarshal " + fmtBytes(b[:cut]))
					}
				}
			}
			if r.Intn(4) == 0 { // trailing bytes are ignored by Unmarshal
				do("unmarshal " + fmtBytes(append(append([]byte{}, b...), genData(r, 1+r.Intn(20))...)))
			}
			// UnmarshalPacked: MarshalPacked output, the packed encoder's output, their prefixes,
			// a mutated copy
			if len(pb) <= 3000 {
				mp, err := newMessage(ar, m).MarshalPacked()
				if err == nil && len(mp) > 0 {
					do("unmarshalpacked " + fmtBytes(mp))
					do("unmarshalpacked " + fmtBytes(pb))
					if len(mp) <= shortCut/3 {
						for cut := 0; cut < len(mp); cut++ {
							do("unmarshalpacked " + fmtBytes(mp[:cut]))
						}
					} else {
						for i := 0; i < 5; i++ {
							do("unmarshalpacked " + fmtBytes(mp[:r.Intn(len(mp))]))
						}
					}
					mut := append([]byte(nil), mp...)
					mut[r.Intn(len(mut))] ^= 1 << uint(r.Intn(8))
					do("unmarshalpacked " + fmtBytes(mut))
				}
			}
			stream = append(stream, b...)
			pstream = append(pstream, pb...)
			if len(b) > maxFrame {
				maxFrame = len(b)
			}
		}
		if !ok {
			continue
		}
		S := fmtBytes(stream)
		// full stream: without reuse, with reuse, reuse switched on in the middle
		do(fmt.Sprintf("decode 0 0 %s %s %s", Ints(genChunks14(r)), opsN(false, k+1), S))
		do(fmt.Sprintf("decode 0 0 %s %s %s", Ints(genChunks14(r)), opsN(true, k+2), S))
		do(fmt.Sprintf("decode 0 0 %s d,r,%s %s", Ints(genChunks14(r)), opsN(false, k+1), S))
		// the same stream through readers that use the freedom of the io.Reader contract: the final
		// error together with the last bytes, (0, nil) reads, a final error that is not io.EOF
		for _, beh := range []string{"t", "t", "n", "e", "te"} {
			ch := genChunks14(r)
			if r.Bool() {
				ch = append(ch, 0)
			}
			if r.Intn(4) == 0 {
				ch = []int{4096} // everything, and the error, in one Read
			}
			do(fmt.Sprintf("decodex %s 0 %s %s %s", beh, Ints(ch), opsN(r.Bool(), k+2), S))
		}
		if len(stream) > 9 {
			cut := 1 + r.Intn(len(stream)-1)
			do(fmt.Sprintf("decodex t 0 %s %s %s", Ints(genChunks14(r)), opsN(r.Bool(), k+1), fmtBytes(stream[:cut])))
			do(fmt.Sprintf("decodex te 0 %s %s %s", Ints(genChunks14(r)), opsN(r.Bool(), k+1), fmtBytes(stream[:cut])))
		}
		if len(pstream) <= 3000 {
			P := fmtBytes(pstream)
			do(fmt.Sprintf("decode 1 0 %s %s %s", Ints(genChunks14(r)), opsN(false, k+1), P))
			do(fmt.Sprintf("decode 1 0 %s %s %s", Ints(genChunks14(r)), opsN(true, k+1), P))
		}
		// MaxMessageSize around the largest frame, and tiny / huge values
		for _, mx := range []uint64{uint64(maxFrame), uint64(maxFrame) - 1, uint64(maxFrame) + 1, uint64(maxFrame) - 8,
			uint64(hdrLen(len(msgs[0]))), uint64(hdrLen(len(msgs[0]))) - 1, 8, 7, 1, 1<<64 - 1} {
			if r.Intn(3) != 0 && q >= 20 {
				continue
			}
			do(fmt.Sprintf("decode 0 %d %s %s %s", mx, Ints(genChunks14(r)), opsN(r.Bool(), k+1), S))
		}
		// limit changed between calls
		do(fmt.Sprintf("decode 0 0 %s d,m%d,d,m0,d,d,d %s", Ints(genChunks14(r)), maxFrame-1, S))
		// cuts
		if len(stream) <= shortCut {
			for cut := 0; cut < len(stream); cut++ {
				C := fmtBytes(stream[:cut])
				do(fmt.Sprintf("decode 0 0 %s %s %s", Ints(genChunks14(r)), opsN(false, k+1), C))
				do(fmt.Sprintf("decode 0 0 %s %s %s", Ints(genChunks14(r)), opsN(true, k+1), C))
			}
		} else {
			cuts := []int{}
			// around the frame boundaries and inside headers
			off := 0
			for _, m := range msgs {
				cuts = append(cuts, off+1, off+4, off+7, off+8, off+9, off+hdrLen(len(m))-1, off+hdrLen(len(m)), off+hdrLen(len(m))+1)
				off += frameLen(m)
				cuts = append(cuts, off-1, off)
			}
			for i := 0; i < 8; i++ {
				cuts = append(cuts, r.Intn(len(stream)))
			}
			for _, cut := range cuts {
				if cut < 0 || cut > len(stream) || (r.Intn(3) == 0 && q >= 20) {
					continue
				}
				C := fmtBytes(stream[:cut])
				do(fmt.Sprintf("decode 0 0 %s %s %s", Ints(genChunks14(r)), opsN(r.Bool(), k+1), C))
			}
		}
		if len(pstream) <= shortCut/2 {
			for cut := 0; cut < len(pstream); cut++ {
				do(fmt.Sprintf("decode 1 0 %s %s %s", Ints(genChunks14(r)), opsN(cut%2 == 0, k+1), fmtBytes(pstream[:cut])))
			}
		} else if len(pstream) <= 3000 {
			for i := 0; i < 6; i++ {
				cut := r.Intn(len(pstream))
				do(fmt.Sprintf("decode 1 0 %s %s %s", Ints(genChunks14(r)), opsN(r.Bool(), k+1), fmtBytes(pstream[:cut])))
			}
		}
		// mutated header bytes
		for i := 0; i < 4; i++ {
			mut := append([]byte(nil), stream...)
			h := hdrLen(len(msgs[0]))
			for j := 0; j < 1+r.Intn(2); j++ {
				p := r.Intn(h)
				if p >= len(mut) {
					continue
				}
				switch r.Intn(3) {
				case 0:
					mut[p] ^= 1 << uint(r.Intn(8))
				case 1:
					mut[p] = byte(r.U64())
				case 2:
					mut[p] = []byte{0, 1, 0xff, 0x80}[r.Intn(4)]
				}
			}
			mx := []uint64{0, 0, 4096, uint64(maxFrame), 1 << 20}[r.Intn(5)]
			do(fmt.Sprintf("decode 0 %d %s %s %s", mx, Ints(genChunks14(r)), opsN(r.Bool(), k+1), fmtBytes(mut)))
			do("unmarshal " + fmtBytes(mut))
		}
	}

	// ---- hostile headers
	for q := 0; q < nHostile; q++ {
		hb := hostileHeader(r)
		H := fmtBytes(hb)
		do("unmarshal " + H)
		mx := []uint64{0, 0, 8, 16, 64, 4096, 4104, 1 << 20, 1 << 26}[r.Intn(9)]
		do(fmt.Sprintf("decode 0 %d %s %s %s", mx, Ints(genChunks14(r)), opsN(r.Bool(), 3), H))
		if q%10 == 0 && binary.LittleEndian.Uint32(hb) <= 1000 {
			do("totalsize " + H)
		}
	}
}
