// Command c14: correspondence harness for property C14 (stream framing of message.go).
//
// Case lines (read by ocaml/frame_driver.ml):
//
//	marshal <arena> <segs>              Message.Marshal
//	unmarshal <bytes>                   Unmarshal (+ allocation predicate)
//	encode <packed> <arena> <segs>      Encoder.Encode into a buffer
//	decode <packed> <max> <chunks> <ops> <bytes>
//	                                    a Decoder over a reader delivering <bytes> in the given chunk
//	                                    sizes (cycled); ops: d = Decode, r = ReuseBuffer, m<N> = set
//	                                    MaxMessageSize
//	hdrsize <n> | segsize <bytes> <i> | totalsize <bytes>   header arithmetic through verif hooks
//
// bytes: parts joined by '+': hex, zN (N zero bytes), '-' (empty); segs: 'none' or bytes joined by ','.
package main

import (
	"bytes"
	"errors"
	"flag"
	"fmt"
	"io"
	"os"
	"path/filepath"
	"runtime"
	"runtime/debug"
	"strconv"
	"strings"

	capnp "capnproto.org/go/capnp/v3"
	. "verifh/hc"
)

func main() {
	// memory guard: the property says hostile headers cannot make the decoder allocate more
	// than MaxMessageSize; if a changed implementation does, fail the run instead of the host
	debug.SetMemoryLimit(3 << 30)
	Main(runC14)
}

// ---------------------------------------------------------------- byte-string syntax

func parseBytes(s string) []byte {
	var out []byte
	for _, p := range strings.Split(s, "+") {
		switch {
		case p == "-" || p == "":
		case p[0] == 'z':
			n, err := strconv.Atoi(p[1:])
			if err != nil {
				panic(err)
			}
			out = append(out, make([]byte, n)...)
		default:
			out = append(out, Unhx(p)...)
		}
	}
	return out
}

// fmtBytes writes b with runs of >= 24 zero bytes abbreviated.
func fmtBytes(b []byte) string {
	if len(b) == 0 {
		return "-"
	}
	var parts []string
	i := 0
	start := 0
	for i < len(b) {
		if b[i] == 0 {
			j := i
			for j < len(b) && b[j] == 0 {
				j++
			}
			if j-i >= 24 {
				if i > start {
					parts = append(parts, Hx(b[start:i]))
				}
				parts = append(parts, fmt.Sprintf("z%d", j-i))
				start = j
			}
			i = j
		} else {
			i++
		}
	}
	if start < len(b) {
		parts = append(parts, Hx(b[start:]))
	}
	return strings.Join(parts, "+")
}

func parseSegs(s string) [][]byte {
	if s == "none" {
		return nil
	}
	var segs [][]byte
	for _, p := range strings.Split(s, ",") {
		segs = append(segs, parseBytes(p))
	}
	return segs
}

func fmtSegs(segs [][]byte) string {
	if len(segs) == 0 {
		return "none"
	}
	p := make([]string, len(segs))
	for i, s := range segs {
		p[i] = fmtBytes(s)
	}
	return strings.Join(p, ",")
}

// render: hex when short, length and FNV-1a 64 otherwise (same in the OCaml driver).
func render(b []byte) string {
	if len(b) <= 96 {
		return Hx(b)
	}
	h := uint64(0xcbf29ce484222325)
	for _, x := range b {
		h = (h ^ uint64(x)) * 0x100000001b3
	}
	return fmt.Sprintf("#%d:%016x", len(b), h)
}

func parseNum(s string) uint64 {
	v, err := strconv.ParseUint(s, 0, 64)
	if err != nil {
		panic(err)
	}
	return v
}

// ---------------------------------------------------------------- reader

// chunkReader is an io.Reader that uses the freedom of the io.Reader contract: it delivers its
// data in the given chunk sizes (cycled; size 0 = a (0, nil) read), reports the end by io.EOF or
// by another error (finalErr), either by a separate (0, err) read or together with the last
// bytes (tog).  After it has reported its final error it reports io.EOF.
type chunkReader struct {
	data      []byte
	chunks    []int
	i         int
	tog       bool
	finalErr  error
	reported  bool
	exhausted bool // reported its final error at least once
}

var errInjected = errors.New("verif: injected read error")

func (c *chunkReader) final() error {
	c.exhausted = true
	if !c.reported && c.finalErr != nil {
		c.reported = true
		return c.finalErr
	}
	c.reported = true
	return io.EOF
}

func (c *chunkReader) Read(p []byte) (int, error) {
	if len(c.data) == 0 {
		return 0, c.final()
	}
	n := c.chunks[c.i%len(c.chunks)]
	c.i++
	if n > len(p) {
		n = len(p)
	}
	if n > len(c.data) {
		n = len(c.data)
	}
	copy(p, c.data[:n])
	c.data = c.data[n:]
	if len(c.data) == 0 && c.tog {
		return n, c.final()
	}
	return n, nil
}

// ---------------------------------------------------------------- error classes

// errClass maps an error to the check that fired.  The library reports every check with its
// own fixed message; io.EOF is compared by identity; a read error additionally requires that
// the reader really ran dry during the call.
func errClass(err error, rd *chunkReader) string {
	if err == io.EOF {
		return "eof"
	}
	s := err.Error()
	has := func(x string) bool { return strings.Contains(s, x) }
	switch {
	case has("unmarshal: unexpected EOF"):
		return "unpack" // UnmarshalPacked: packed.Unpack failed
	case has("decode: read header"), has("decode: read segments"):
		c := "unexpected-eof/hdr"
		if has("read segments") {
			c = "unexpected-eof/segs"
		}
		if rd != nil && !rd.exhausted {
			return "read-error-with-data-left"
		}
		return c
	case has("too many segments"):
		return "too-many-segments"
	case has("max message size is smaller"):
		return "config"
	case has("message too large"):
		return "too-large"
	case has("overflow size"):
		return "seg-overflow"
	case has("short header"):
		return "short-header"
	case has("short data"):
		return "short-data"
	case has("no segments"):
		return "no-segments"
	case has("not word-aligned"):
		return "unaligned"
	case has("header size overflows"):
		return "hdr-overflow"
	case has("message size overflows"):
		return "size-overflow"
	case has("too large"):
		return "seg-too-large"
	}
	return "other"
}

// ---------------------------------------------------------------- operations

func newMessage(arena string, segs [][]byte) *capnp.Message {
	cp := make([][]byte, len(segs))
	for i, s := range segs {
		cp[i] = append([]byte{}, s...)
	}
	if arena == "s" && len(cp) == 1 {
		return &capnp.Message{Arena: capnp.SingleSegment(cp[0])}
	}
	return &capnp.Message{Arena: capnp.MultiSegment(cp)}
}

func c14Marshal(arena string, segs [][]byte) string {
	return Safely(func() string {
		b, err := newMessage(arena, segs).Marshal()
		if err != nil {
			return "err " + errClass(err, nil)
		}
		return "ok " + render(b)
	})
}

func c14MarshalPacked(arena string, segs [][]byte) string {
	return Safely(func() string {
		b, err := newMessage(arena, segs).MarshalPacked()
		if err != nil {
			return "err " + errClass(err, nil)
		}
		return "ok " + render(b)
	})
}

func c14UnmarshalPacked(data []byte) string {
	return Safely(func() string {
		msg, err := capnp.UnmarshalPacked(data)
		if err != nil {
			return "err " + errClass(err, nil)
		}
		n, r, _ := segsOf(msg)
		return fmt.Sprintf("ok %d %s", n, r)
	})
}

func encodeBytes(packed bool, arena string, segs [][]byte) ([]byte, error) {
	var buf bytes.Buffer
	var e *capnp.Encoder
	if packed {
		e = capnp.NewPackedEncoder(&buf)
	} else {
		e = capnp.NewEncoder(&buf)
	}
	err := e.Encode(newMessage(arena, segs))
	return buf.Bytes(), err
}

func c14Encode(packed bool, arena string, segs [][]byte) string {
	return Safely(func() string {
		b, err := encodeBytes(packed, arena, segs)
		if err != nil {
			return "err " + errClass(err, nil)
		}
		return "ok " + render(b)
	})
}

func totalAlloc() uint64 {
	var ms runtime.MemStats
	runtime.ReadMemStats(&ms)
	return ms.TotalAlloc
}

// segsOf reads every segment of a decoded message.
func segsOf(msg *capnp.Message) (n int64, rendered string, capsOK bool) {
	n = msg.NumSegments()
	capsOK = true
	parts := make([]string, 0, n)
	for i := int64(0); i < n; i++ {
		seg, err := msg.Segment(capnp.SegmentID(i))
		if err != nil {
			parts = append(parts, "segerr")
			capsOK = false
			continue
		}
		d := seg.Data()
		if cap(d) != len(d) {
			capsOK = false
		}
		parts = append(parts, render(d))
	}
	return n, strings.Join(parts, ","), capsOK
}

func bit(b bool, name string) string {
	if b {
		return name + "1"
	}
	return name + "0"
}

func c14Unmarshal(data []byte) string {
	return Safely(func() string {
		a0 := totalAlloc()
		msg, err := capnp.Unmarshal(data)
		a1 := totalAlloc()
		// the property's predicate: memory proportional to the input (6 bytes per input byte
		// for the segment table) plus the constant-size Message and arena header.
		// runtime.MemStats.TotalAlloc is process-wide: an allocation of the runtime's own
		// goroutines can land between the two readings.  Unmarshal is a pure function of its
		// input, so the measurement is repeated and the smallest reading counts (an
		// over-allocation of Unmarshal itself shows in every reading).
		bound := 6*uint64(len(data)) + 6*uint64(len(data))/8 + 1024
		delta := a1 - a0
		for try := 0; try < 4 && delta > bound; try++ {
			b0 := totalAlloc()
			capnp.Unmarshal(data)
			b1 := totalAlloc()
			if b1-b0 < delta {
				delta = b1 - b0
			}
		}
		aok := delta <= bound
		if err != nil {
			return "err " + errClass(err, nil) + " " + bit(aok, "A")
		}
		n, r, c := segsOf(msg)
		return fmt.Sprintf("ok %d %s %s %s", n, r, bit(c, "c"), bit(aok, "A"))
	})
}

func c14Decode(packed bool, max uint64, chunks []int, ops []string, stream []byte) string {
	return c14DecodeX("n", packed, max, chunks, ops, stream)
}

func c14DecodeX(beh string, packed bool, max uint64, chunks []int, ops []string, stream []byte) string {
	rd := &chunkReader{data: append([]byte(nil), stream...), chunks: chunks, tog: strings.Contains(beh, "t")}
	if strings.Contains(beh, "e") {
		rd.finalErr = errInjected
	}
	var d *capnp.Decoder
	if packed {
		d = capnp.NewPackedDecoder(rd)
	} else {
		d = capnp.NewDecoder(rd)
	}
	d.MaxMessageSize = max
	var outs []string
	for _, op := range ops {
		switch {
		case op == "r":
			d.ReuseBuffer()
		case op[0] == 'm':
			d.MaxMessageSize = parseNum(op[1:])
		case op == "d":
			o := Safely(func() string {
				h0, b0 := d.VerifBufIDs()
				a0 := totalAlloc()
				msg, err := d.Decode()
				a1 := totalAlloc()
				h1, b1 := d.VerifBufIDs()
				eff := d.MaxMessageSize
				if eff == 0 {
					eff = 64 << 20
				}
				// the property's predicate: bytes allocated by one Decode <= MaxMessageSize, with
				// slack for allocator size classes (12.5%), the segment table of at most 513
				// slice headers, the Message and error values
				aok := a1-a0 <= eff+eff/8+32768 || eff > 1<<62
				hc, bc := d.VerifCaps()
				// F<h><b>: did this call replace d.hdrbuf / d.buf by a newly allocated buffer
				tail := fmt.Sprintf(":h%d:b%d:%s:F%s%s", hc, bc, bit(aok, "A"), bit(h1 != h0, ""), bit(b1 != b0, ""))
				if err != nil {
					c := errClass(err, rd)
					if c == "eof" {
						return "eof" + tail
					}
					return "err:" + c + tail
				}
				n, r, c := segsOf(msg)
				return fmt.Sprintf("msg:%d:%s:%s%s", n, r, bit(c, "c"), tail)
			})
			outs = append(outs, o)
			if packed && !strings.HasPrefix(o, "msg:") {
				// packed path: the history ends with the first outcome that is not a message (the
				// state of packed.Reader after an error is not part of the C14 model)
				return strings.Join(outs, " ")
			}
		default:
			panic("bad op " + op)
		}
	}
	return strings.Join(outs, " ")
}

// ---------------------------------------------------------------- run

var crumb string

func breadcrumb(line string) {
	if crumb != "" {
		os.WriteFile(crumb, []byte(line+"\n"), 0o644)
	}
}

func runC14(out *Out, r *Rand, tier string, replay []string) {
	if f := flag.Lookup("out"); f != nil {
		crumb = filepath.Join(f.Value.String(), "current_case.txt")
	}
	do := func(line string) {
		f := strings.Fields(line)
		switch f[0] {
		case "marshal":
			segs := parseSegs(f[2])
			res := c14Marshal(f[1], segs)
			out.Case("marshal", line, res, Cls(res), len(segs) > 0)
		case "marshalpacked":
			segs := parseSegs(f[2])
			res := c14MarshalPacked(f[1], segs)
			out.Case("marshalpacked", line, res, Cls(res), len(segs) > 0)
		case "unmarshalpacked":
			data := parseBytes(f[1])
			res := c14UnmarshalPacked(data)
			out.Case("unmarshalpacked", line, res, clsOf(res), len(data) >= 2)
		case "unmarshal":
			data := parseBytes(f[1])
			if len(data) > 4096 {
				breadcrumb(line)
			}
			res := c14Unmarshal(data)
			if len(data) > 4096 {
				breadcrumb("")
			}
			out.Case("unmarshal", line, res, clsOf(res), len(data) >= 8)
		case "encode":
			segs := parseSegs(f[3])
			res := c14Encode(f[1] == "1", f[2], segs)
			out.Case("encode", line, res, Cls(res), len(segs) > 0)
		case "decode":
			stream := parseBytes(f[5])
			breadcrumb(line)
			res := c14Decode(f[1] == "1", parseNum(f[2]), ParseInts(f[3]), strings.Split(f[4], ","), stream)
			breadcrumb("")
			kind := "decode"
			if f[1] == "1" {
				kind = "decode-packed"
			}
			if strings.Contains(f[4], "r") {
				kind += "-reuse"
			}
			out.Case(kind, line, res, decodeClass(res), len(stream) >= 8)
		case "decodex":
			stream := parseBytes(f[5])
			breadcrumb(line)
			res := c14DecodeX(f[1], false, parseNum(f[2]), ParseInts(f[3]), strings.Split(f[4], ","), stream)
			breadcrumb("")
			out.Case("decodex-"+f[1], line, res, decodeClass(res), len(stream) >= 8)
		case "hdrsize":
			res := fmt.Sprint(capnp.VerifStreamHeaderSize(uint32(parseNum(f[1]))))
			out.Case("hdrsize", line, res, "ok", true)
		case "segsize":
			hb := parseBytes(f[1])
			res := Safely(func() string {
				sz, err := capnp.VerifSegmentSize(hb, uint32(parseNum(f[2])))
				if err != nil {
					return "err " + errClass(err, nil)
				}
				return fmt.Sprint("ok ", sz)
			})
			out.Case("segsize", line, res, Cls(res), true)
		case "totalsize":
			hb := parseBytes(f[1])
			res := Safely(func() string {
				sz, err := capnp.VerifTotalSize(hb)
				if err != nil {
					return "err " + errClass(err, nil)
				}
				return fmt.Sprint("ok ", sz)
			})
			out.Case("totalsize", line, res, Cls(res), true)
		default:
			panic("bad case " + line)
		}
	}
	if replay != nil {
		for _, l := range replay {
			do(l)
		}
		breadcrumb("")
		out.Close("replay")
		return
	}
	generate(do, r, tier)
	breadcrumb("")
	out.Close("message sequences (1..600 segments, sizes 0.. incl. around the limits) through Encoder/Decoder, " +
		"Marshal/Unmarshal, packed and unpacked; every cut point of short streams, random cuts of long ones; hostile and " +
		"mutated headers; MaxMessageSize values around the frame size; ReuseBuffer histories; reader chunk sizes 1..17, 4096. " +
		"distinct = distinct case line; non-trivial = at least one segment / 8 bytes of input")
}

// class of an observation "err <class> ..." or "ok ..."
func clsOf(res string) string {
	f := strings.Fields(res)
	if len(f) >= 2 && f[0] == "err" {
		return "err:" + f[1]
	}
	return f[0]
}

// class of a decode history: number of messages, then the first outcome that is not a message
func decodeClass(res string) string {
	n := 0
	for _, o := range strings.Fields(res) {
		p := strings.Split(o, ":")
		if p[0] == "msg" {
			n++
			continue
		}
		k := p[0]
		if k == "err" && len(p) > 1 {
			k = p[1]
		}
		if n > 3 {
			n = 3
		}
		return fmt.Sprintf("msgs%d>%s", n, k)
	}
	return "msgs-only"
}
