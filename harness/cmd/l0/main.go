// Command l0: translation validation of gotrans. For every function of the signature table
// written by gotrans (coq/Gen/GoArith.sigs) it calls the REAL Go function through
// capnp.VerifArith on boundary values (0, +-1, 2^k, 2^k+-1, type min/max, constants of the
// code, pointer-word field patterns) and on random values, and writes the arguments for the
// OCaml driver around the definitions extracted from coq/Gen/GoArith.v.
package main

import (
	"flag"
	"fmt"
	"os"
	"sort"
	"strconv"
	"strings"

	"bufio"
	"io"
	"os/exec"
	"path/filepath"

	capnp "capnproto.org/go/capnp/v3"
	"capnproto.org/go/capnp/v3/pogs"
	. "verifh/hc"
)

var sigsPath = flag.String("sigs", "", "signature table written by gotrans (default: coq/Gen/GoArith.sigs, group 2: coq/Gen/GoArith2.sigs)")
var group = flag.Int("group", 1, "1: the L0 arithmetic of Core/Arith.v (capnp.VerifArith); 2: the second group (VerifArith2, pogs.VerifArith, capnpc-go)")

func main() { Main(runL0) }

type styp struct {
	kind   string // "int", "bool", "len"
	bits   int
	signed bool
}

type fsig struct {
	name   string
	args   []styp
	res    []styp
	panics bool
}

func parseType(s string, structs map[string][]styp) []styp {
	switch {
	case s == "bool" || s == "err":
		return []styp{{kind: "bool", bits: 1}} // err: 1 = non-nil error
	case s == "len64":
		return []styp{{kind: "len", bits: 63}}
	case strings.HasPrefix(s, "struct:"):
		f, ok := structs[s[7:]]
		if !ok {
			panic("unknown struct " + s)
		}
		return f
	case s[0] == 'u' || s[0] == 's':
		n, err := strconv.Atoi(s[1:])
		if err != nil || (n != 8 && n != 16 && n != 32 && n != 64) {
			panic("bad type " + s)
		}
		return []styp{{kind: "int", bits: n, signed: s[0] == 's'}}
	}
	panic("bad type " + s)
}

func readSigs(path string) []fsig {
	b, err := os.ReadFile(path)
	if err != nil {
		panic(err)
	}
	structs := map[string][]styp{}
	var res []fsig
	for _, line := range strings.Split(string(b), "\n") {
		f := strings.Fields(line)
		if len(f) == 0 || f[0] == "#" {
			continue
		}
		if f[0] == "struct" {
			var fs []styp
			for _, x := range f[3:] {
				fs = append(fs, parseType(x[strings.IndexByte(x, ':')+1:], nil)...)
			}
			structs[f[1]] = fs
			continue
		}
		// name file recv goname : args -> res : total|panics
		s := fsig{name: f[0]}
		i := 5
		for ; f[i] != "->"; i++ {
			s.args = append(s.args, parseType(f[i], structs)...)
		}
		for i++; f[i] != ":"; i++ {
			s.res = append(s.res, parseType(f[i], structs)...)
		}
		s.panics = strings.HasPrefix(f[i+1], "panics")
		res = append(res, s)
	}
	return res
}

// norm reduces a raw 64-bit pattern to the 64-bit two's complement representation of a value
// of the type.
func norm(t styp, raw uint64) uint64 {
	switch t.kind {
	case "bool":
		return raw & 1
	case "len":
		return raw &^ (1 << 63)
	}
	if t.bits == 64 {
		return raw
	}
	v := raw & (1<<uint(t.bits) - 1)
	if t.signed && v>>(uint(t.bits)-1) == 1 {
		v |= ^uint64(0) << uint(t.bits)
	}
	return v
}

// show prints the mathematical value (hex, '-' for negative values of signed types).
func show(t styp, v uint64) string {
	if t.kind == "int" && t.signed && int64(v) < 0 {
		return fmt.Sprintf("-%x", -v)
	}
	return fmt.Sprintf("%x", v)
}

func parseVal(s string) uint64 {
	neg := strings.HasPrefix(s, "-")
	if neg {
		s = s[1:]
	}
	v, err := strconv.ParseUint(s, 16, 64)
	if err != nil {
		panic(err)
	}
	if neg {
		return -v
	}
	return v
}

var rawBoundary []uint64
var wordPatterns []uint64

func init() {
	add := func(v uint64) { rawBoundary = append(rawBoundary, v, -v, ^v) }
	for i := uint64(0); i < 18; i++ {
		add(i)
	}
	for k := uint(1); k < 64; k++ {
		add(1 << k)
		add(1<<k - 1)
		add(1<<k + 1)
		add(1<<k - 8)
		add(1<<k + 7)
	}
	for _, c := range []uint64{4294967288, 4294967287, 4294967289, 4294967281, 524288, 524287, 524280, 524281, 524279,
		65535 * 8, 65535, 65536, 0xfffffffc, 0xfffffff8, 0x7ffffff8, 0xffffffff, 0x1fffffff, 0x20000000, 0x3fffffff,
		0x0fffffff, 0x10000000, 0xaaaaaaaaaaaaaaaa, 0x5555555555555555} {
		add(c)
	}
	// pointer words: low 3 bits x offset field x upper 32 bits
	offs := []uint64{0, 1, 2, 0x0fffffff, 0x10000000, 0x1fffffff, 0x20000000, 0x20000001, 0x3ffffffe, 0x3fffffff}
	his := []uint64{0, 1, 0xffff, 0x10000, 0x10001, 0xffff0000, 0xfffeffff, 0xffffffff, 0x80000000, 0x7fffffff, 0x8000, 0x80008000}
	for lt := uint64(0); lt < 8; lt++ {
		for _, n := range []uint64{0, 1, 2, 7, 8, 9, 1 << 28, 1<<29 - 2, 1<<29 - 1, 1<<29 - 8} {
			his = append(his, lt|n<<3)
		}
	}
	for low := uint64(0); low < 8; low++ {
		for _, o := range offs {
			for _, h := range his {
				wordPatterns = append(wordPatterns, h<<32|(o<<2)|low|(low&4))
				wordPatterns = append(wordPatterns, h<<32|(o<<2)&^7|low)
			}
		}
	}
}

func boundary(t styp) []uint64 {
	seen := map[uint64]bool{}
	var l []uint64
	src := rawBoundary
	if t.kind == "int" && t.bits == 64 && !t.signed {
		src = append(append([]uint64(nil), rawBoundary...), wordPatterns...)
	}
	if t.kind == "int" && t.bits == 8 {
		src = nil
		for i := uint64(0); i < 256; i++ { // exhaustive
			src = append(src, i)
		}
	}
	for _, r := range src {
		v := norm(t, r)
		if !seen[v] {
			seen[v] = true
			l = append(l, v)
		}
	}
	sort.Slice(l, func(i, j int) bool { return l[i] < l[j] })
	return l
}

func randVal(r *Rand, t styp, bl []uint64) uint64 {
	switch r.Pick(50, 35, 15) {
	case 0:
		return norm(t, r.U64())
	case 1:
		n := uint(r.Intn(t.bits + 1))
		var v uint64
		if n > 0 {
			v = r.U64() >> (64 - n)
		}
		if t.kind == "int" && t.signed && r.Bool() {
			v = -v
		}
		return norm(t, v)
	}
	return bl[r.Intn(len(bl))]
}

func runCase(out *Out, s *fsig, kind string, vals []uint64) {
	if fix := normalise[s.name]; fix != nil {
		fix(vals)
	}
	var cb strings.Builder
	cb.WriteString(s.name)
	for i, v := range vals {
		cb.WriteByte(' ')
		cb.WriteString(show(s.args[i], v))
	}
	res, panicked := callImpl(s.name, vals)
	var impl, class string
	if panicked {
		impl, class = "panic", "panic"
	} else {
		if len(res) != len(s.res) {
			panic(fmt.Sprintf("%s: VerifArith returned %d results, the signature table has %d", s.name, len(res), len(s.res)))
		}
		var ib strings.Builder
		ib.WriteString("ok")
		class = "ok"
		for i, v := range res {
			if norm(s.res[i], v) != v {
				panic(fmt.Sprintf("%s: result %d = %#x is outside its type", s.name, i, v))
			}
			ib.WriteByte(' ')
			ib.WriteString(show(s.res[i], v))
			if s.res[i].kind == "bool" {
				class += fmt.Sprintf("/%d", v)
			}
		}
		impl = ib.String()
	}
	out.Case(s.name+"/"+kind, cb.String(), impl, class, true)
}

// normalise restricts the generated arguments of some functions to the domain on which the
// wrapper can call the real function (applied before the case is written, so implementation and
// model see the same arguments).
var normalise = map[string]func(v []uint64){
	// the header that the wrapper builds has 64 segment slots
	"go_segmentSize": func(v []uint64) { v[1] %= 64 },
	// intValue(v) is only defined for int8..int64 and returns the sign-extended field
	"go_intFieldDefaultMask": func(v []uint64) {
		if v[0] == 0 {
			return
		}
		v[1] = 2 + v[1]%4
		switch v[1] {
		case 2:
			v[2] = uint64(int64(int8(v[2])))
		case 3:
			v[2] = uint64(int64(int16(v[2])))
		case 4:
			v[2] = uint64(int64(int32(v[2])))
		}
	},
}

// ---- implementations

var capnpcIn io.WriteCloser
var capnpcOut *bufio.Reader
var outDir string

// capnpcCall serves the functions of package main of capnpc-go through a child process built
// with -tags verif from the repository the harness is built against.
func capnpcCall(name string, vals []uint64) ([]uint64, bool) {
	if capnpcIn == nil {
		goCmd := os.Getenv("VERIF_GO")
		if goCmd == "" {
			goCmd = "go1.26.8"
		}
		exe, err := filepath.Abs(filepath.Join(outDir, "capnpc-go-verif"))
		if err != nil {
			panic(err)
		}
		b := exec.Command(goCmd, "build", "-tags", "verif", "-o", exe, "capnproto.org/go/capnp/v3/capnpc-go")
		b.Dir = "harness"
		if o, err := b.CombinedOutput(); err != nil {
			panic(fmt.Sprintf("building capnpc-go with -tags verif failed: %v\n%s", err, o))
		}
		c := exec.Command(exe)
		c.Env = append(os.Environ(), "CAPNPC_GO_VERIF_ARITH=1")
		c.Stderr = os.Stderr
		capnpcIn, err = c.StdinPipe()
		if err != nil {
			panic(err)
		}
		po, err := c.StdoutPipe()
		if err != nil {
			panic(err)
		}
		capnpcOut = bufio.NewReader(po)
		if err := c.Start(); err != nil {
			panic(err)
		}
	}
	var b strings.Builder
	b.WriteString(name)
	for _, v := range vals {
		fmt.Fprintf(&b, " %d", v)
	}
	b.WriteByte('\n')
	if _, err := io.WriteString(capnpcIn, b.String()); err != nil {
		panic(err)
	}
	line, err := capnpcOut.ReadString('\n')
	if err != nil {
		panic(fmt.Sprintf("capnpc-go verif server: %v (request %q)", err, b.String()))
	}
	f := strings.Fields(line)
	if len(f) == 1 && f[0] == "panic" {
		return nil, true
	}
	if len(f) == 0 || f[0] != "ok" {
		panic("capnpc-go verif server: bad answer " + line)
	}
	res := make([]uint64, len(f)-1)
	for i := range res {
		res[i], err = strconv.ParseUint(f[i+1], 10, 64)
		if err != nil {
			panic(err)
		}
	}
	return res, false
}

func callImpl(name string, vals []uint64) ([]uint64, bool) {
	if *group == 1 {
		return capnp.VerifArith(name, vals)
	}
	switch name {
	case "go_isFieldInBounds":
		return pogs.VerifArith(name, vals)
	case "go_gen_Offset", "go_intbits", "go_intFieldDefaultMask":
		return capnpcCall(name, vals)
	}
	return capnp.VerifArith2(name, vals)
}

func runL0(out *Out, r *Rand, tier string, replay []string) {
	if *sigsPath == "" {
		*sigsPath = "coq/Gen/GoArith.sigs"
		if *group == 2 {
			*sigsPath = "coq/Gen/GoArith2.sigs"
		}
	}
	outDir = flag.Lookup("out").Value.String()
	sigs := readSigs(*sigsPath)
	byName := map[string]*fsig{}
	for i := range sigs {
		byName[sigs[i].name] = &sigs[i]
	}
	const rule = "every case calls the real Go function (capnp.VerifArith) and the definition extracted from the generated coq/Gen/GoArith.v on the same in-range arguments; all are non-trivial"
	if replay != nil {
		for _, line := range replay {
			f := strings.Fields(line)
			s := byName[f[0]]
			if s == nil || len(f)-1 != len(s.args) {
				panic("bad replay line: " + line)
			}
			vals := make([]uint64, len(s.args))
			for i := range vals {
				vals[i] = norm(s.args[i], parseVal(f[i+1]))
			}
			runCase(out, s, "replay", vals)
		}
		out.Close(rule)
		return
	}
	nrand, limit := 10000, 20000
	if tier == "thorough" {
		nrand, limit = 100000, 100000
	}
	for i := range sigs {
		s := &sigs[i]
		lists := make([][]uint64, len(s.args))
		total := 1.0
		for j, t := range s.args {
			lists[j] = boundary(t)
			total *= float64(len(lists[j]))
		}
		vals := make([]uint64, len(s.args))
		if total <= float64(limit) {
			var rec func(j int)
			rec = func(j int) {
				if j == len(lists) {
					runCase(out, s, "boundary", vals)
					return
				}
				for _, v := range lists[j] {
					vals[j] = v
					rec(j + 1)
				}
			}
			rec(0)
		} else {
			// every boundary value of every argument at least once, the rest sampled
			for j := range lists {
				for _, v := range lists[j] {
					for k := range vals {
						vals[k] = lists[k][r.Intn(len(lists[k]))]
					}
					vals[j] = v
					runCase(out, s, "boundary", vals)
				}
			}
			for n := 0; n < limit; n++ {
				for k := range vals {
					vals[k] = lists[k][r.Intn(len(lists[k]))]
				}
				runCase(out, s, "boundary", vals)
			}
		}
		for n := 0; n < nrand && len(vals) > 0; n++ {
			for k := range vals {
				vals[k] = randVal(r, s.args[k], lists[k])
			}
			runCase(out, s, "random", vals)
		}
	}
	out.Extra["x_functions"] = len(sigs)
	out.Close(rule)
}
