package main

import (
	"bytes"
	"fmt"
	"io"
	"strings"

	capnp "capnproto.org/go/capnp/v3"
	. "verifh/hc"
)

func main() { Main(runC13) }

// chunkReader delivers its data in the given chunk sizes (cycled), to vary bufio's
// Buffered() and with it the Reader's fast/slow path choice.
type chunkReader struct {
	data   []byte
	chunks []int
	i      int
}

func (c *chunkReader) Read(p []byte) (int, error) {
	if len(c.data) == 0 {
		return 0, io.EOF
	}
	n := c.chunks[c.i%len(c.chunks)]
	c.i++
	if n > len(p) {
		n = len(p)
	}
	if n > len(c.data) {
		n = len(c.data)
	}
	copy(p, c.data[:n])
	c.data = c.data[n:]
	return n, nil
}

func c13Pack(src []byte) string {
	return Safely(func() string { return "ok " + Hx(capnp.VerifPack(nil, src)) })
}

// Unpack appending to a dst whose spare capacity holds stale non-zero bytes (the scratch-buffer
// pattern buf, _ = Unpack(buf[:0], next)): the appended part must equal Unpack(nil, src).
func c13UnpackDirty(src []byte, pre int) string {
	return Safely(func() string {
		buf := make([]byte, 1<<16)
		for i := range buf {
			buf[i] = 0xa5
		}
		out, err := capnp.VerifUnpack(buf[:pre], src)
		if err != nil {
			return "err"
		}
		if len(out) < pre {
			return "short"
		}
		for i := 0; i < pre; i++ {
			if out[i] != 0xa5 {
				return "prefix-clobbered"
			}
		}
		return "ok " + Hx(out[pre:])
	})
}

func c13Unpack(src []byte) string {
	return Safely(func() string {
		out, err := capnp.VerifUnpack(nil, src)
		if err != nil {
			return "err"
		}
		return "ok " + Hx(out)
	})
}

// stream through Reader.Read with request sizes `sizes` (cycled) and underlying chunking.
func c13Stream(src []byte, chunks, sizes []int, bufSize int, wordAPI bool) string {
	return Safely(func() string {
		rd := capnp.VerifNewPackedReader(&chunkReader{data: append([]byte(nil), src...), chunks: chunks}, bufSize)
		var out []byte
		for k := 0; ; k++ {
			if len(out) > 64<<20 {
				return "runaway"
			}
			if wordAPI {
				var w [8]byte
				err := rd.ReadWord(w[:])
				if err == io.EOF {
					return "ok " + Hx(out)
				}
				if err != nil {
					return "err"
				}
				out = append(out, w[:]...)
				continue
			}
			buf := make([]byte, sizes[k%len(sizes)])
			n, err := rd.Read(buf)
			out = append(out, buf[:n]...)
			if err == io.EOF {
				return "ok " + Hx(out)
			}
			if err != nil {
				return "err"
			}
			if n == 0 && k > 1<<22 {
				return "stuck"
			}
		}
	})
}

// genWord produces one word with a chosen zero/non-zero pattern.
func genWord(r *Rand, mask byte) []byte {
	w := make([]byte, 8)
	for i := 0; i < 8; i++ {
		if mask&(1<<uint(i)) != 0 {
			w[i] = byte(1 + r.Intn(255))
		}
	}
	return w
}

func genPayload(r *Rand, maxWords int) []byte {
	var b []byte
	nw := 0
	for nw < maxWords {
		switch r.Pick(3, 3, 3, 2, 1) {
		case 0: // zero run, lengths around the 255-word limit
			n := []int{1, 2, 3, 254, 255, 256, 257, 510, 511}[r.Intn(9)]
			if r.Bool() {
				n = 1 + r.Intn(8)
			}
			b = append(b, make([]byte, 8*n)...)
			nw += n
		case 1: // literal run (no zero bytes, or one zero per word)
			n := []int{1, 2, 3, 254, 255, 256, 257, 510, 511}[r.Intn(9)]
			if r.Bool() {
				n = 1 + r.Intn(8)
			}
			for i := 0; i < n; i++ {
				m := byte(0xff)
				if r.Intn(4) == 0 {
					m &^= 1 << uint(r.Intn(8))
				}
				b = append(b, genWord(r, m)...)
			}
			nw += n
		case 2: // random tag
			b = append(b, genWord(r, byte(r.U64()))...)
			nw++
		case 3: // word with exactly two zeros: ends a literal run
			m := byte(0xff) &^ (1 << uint(r.Intn(8)))
			m &^= 1 << uint(r.Intn(8))
			b = append(b, genWord(r, m)...)
			nw++
		case 4:
			b = append(b, genWord(r, 0xff)...)
			nw++
		}
		if r.Intn(6) == 0 { // a word with a single non-zero byte (any position) right after whatever came
			b = append(b, genWord(r, 1<<uint(r.Intn(8)))...)
			nw++
		}
	}
	return b
}

func genChunks(r *Rand) []int {
	n := 1 + r.Intn(4)
	c := make([]int, n)
	for i := range c {
		c[i] = []int{1, 2, 3, 7, 8, 9, 10, 17, 64, 4096}[r.Intn(10)]
	}
	return c
}

func runC13(out *Out, r *Rand, tier string, replay []string) {
	do := func(line string) {
		f := strings.Fields(line)
		switch f[0] {
		case "pack":
			src := Unhx(f[1])
			res := c13Pack(src)
			out.Case("pack", line, res, Cls(res), len(src) > 0)
		case "unpack":
			src := Unhx(f[1])
			res := c13Unpack(src)
			out.Case("unpack", line, res, Cls(res), len(src) > 1)
		case "unpackdirty":
			src := Unhx(f[1])
			res := c13UnpackDirty(src, ParseInts(f[2])[0])
			out.Case("unpackdirty", line, res, Cls(res), len(src) > 1)
		case "stream":
			src := Unhx(f[1])
			res := c13Stream(src, ParseInts(f[2]), ParseInts(f[3]), ParseInts(f[4])[0], false)
			out.Case("stream", line, res, Cls(res), len(src) > 1)
		case "streamword":
			src := Unhx(f[1])
			res := c13Stream(src, ParseInts(f[2]), []int{8}, ParseInts(f[3])[0], true)
			out.Case("streamword", line, res, Cls(res), len(src) > 1)
		default:
			panic("bad case " + line)
		}
	}
	if replay != nil {
		for _, l := range replay {
			do(l)
		}
		out.Close("replay")
		return
	}
	n := 1500
	maxWords := 40
	if tier == "thorough" {
		n = 40000
		maxWords = 700
	}
	// exhaustive part: every tag pattern as a single word, alone and followed by a zero / literal word
	for m := 0; m < 256; m++ {
		w := genWord(r, byte(m))
		do("pack " + Hx(w))
		do("pack " + Hx(append(append([]byte{}, w...), make([]byte, 8)...)))
		do("pack " + Hx(append(append([]byte{}, w...), genWord(r, 0xff)...)))
		// a zero word (or two) followed by the pattern word: the zero-run scan must stop at it
		do("pack " + Hx(append(make([]byte, 8), w...)))
		do("pack " + Hx(append(make([]byte, 16), w...)))
		p := capnp.VerifPack(nil, w)
		do("unpack " + Hx(p))
		do(fmt.Sprintf("unpackdirty %s %d", Hx(p), 8*(m%3)))
		do(fmt.Sprintf("unpackdirty %s %d", Hx(capnp.VerifPack(nil, append(append(make([]byte, 8), w...), make([]byte, 24)...))), 8))
		for cut := 0; cut < len(p); cut++ {
			do("unpack " + Hx(p[:cut]))
			do(fmt.Sprintf("streamword %s %s %d", Hx(p[:cut]), "4096", 16))
		}
	}
	for i := 0; i < n; i++ {
		mw := maxWords
		if i%10 != 0 {
			mw = 1 + r.Intn(12)
		}
		payload := genPayload(r, mw)
		do("pack " + Hx(payload))
		packedForm := safePack(payload)
		// valid packed input through every decoder
		do("unpack " + Hx(packedForm))
		if len(payload) < 30000 {
			do(fmt.Sprintf("unpackdirty %s %d", Hx(packedForm), 8*r.Intn(5)))
		}
		do(fmt.Sprintf("stream %s %s %s %d", Hx(packedForm), Ints(genChunks(r)), Ints(genSizes(r)), 16+r.Intn(3)*2040))
		do(fmt.Sprintf("streamword %s %s %d", Hx(packedForm), Ints(genChunks(r)), 16+r.Intn(2)*4080))
		// truncations: every prefix for short inputs, random prefixes otherwise
		if len(packedForm) <= 40 {
			for cut := 0; cut < len(packedForm); cut++ {
				do("unpack " + Hx(packedForm[:cut]))
				do(fmt.Sprintf("stream %s %s %s %d", Hx(packedForm[:cut]), Ints(genChunks(r)), Ints(genSizes(r)), 16))
				do(fmt.Sprintf("streamword %s %s %d", Hx(packedForm[:cut]), Ints(genChunks(r)), 16))
			}
		} else {
			for k := 0; k < 6; k++ {
				cut := r.Intn(len(packedForm))
				do("unpack " + Hx(packedForm[:cut]))
				do(fmt.Sprintf("stream %s %s %s %d", Hx(packedForm[:cut]), Ints(genChunks(r)), Ints(genSizes(r)), 16+r.Intn(2)*4080))
				do(fmt.Sprintf("streamword %s %s %d", Hx(packedForm[:cut]), Ints(genChunks(r)), 16))
			}
		}
		// malformed stream: mutated bytes / random bytes
		mut := append([]byte(nil), packedForm...)
		for k := 0; k < 1+r.Intn(3) && len(mut) > 0; k++ {
			switch r.Intn(3) {
			case 0:
				mut[r.Intn(len(mut))] = byte(r.U64())
			case 1:
				mut[r.Intn(len(mut))] = []byte{0, 0xff, 1, 0xfe}[r.Intn(4)]
			case 2:
				j := r.Intn(len(mut))
				mut = append(mut[:j], mut[j+1:]...)
			}
		}
		do("unpack " + Hx(mut))
		do(fmt.Sprintf("stream %s %s %s %d", Hx(mut), Ints(genChunks(r)), Ints(genSizes(r)), 16))
		if i%5 == 0 {
			rnd := make([]byte, r.Intn(30))
			for j := range rnd {
				rnd[j] = []byte{0, 0xff, byte(r.U64()), byte(r.Intn(4))}[r.Intn(4)]
			}
			do("unpack " + Hx(rnd))
			do(fmt.Sprintf("streamword %s %s %d", Hx(rnd), Ints(genChunks(r)), 16))
		}
	}
	out.Close("payloads: runs of zero / literal / mixed words with run lengths around 254..257 and 510; packed inputs: valid, every or random prefix, mutated, random. distinct = distinct case line; non-trivial = non-empty payload / packed input of at least 2 bytes")
}

func genSizes(r *Rand) []int {
	n := 1 + r.Intn(3)
	c := make([]int, n)
	for i := range c {
		c[i] = []int{1, 2, 3, 7, 8, 9, 15, 16, 17, 64, 4096}[r.Intn(11)]
	}
	return c
}

func safePack(b []byte) (res []byte) {
	defer func() { recover() }()
	return capnp.VerifPack(nil, b)
}

var _ = bytes.Equal
