package main

import (
	"bytes"
	"fmt"
	"io"
	"strings"

	capnp "capnproto.org/go/capnp/v3"
	. "verifh/hc"
)

func main() { Main(runC13) }

// chunkReader delivers its data in the given chunk sizes (cycled), to vary bufio's
// Buffered() and with it the Reader's fast/slow path choice.
type chunkReader struct {
	data   []byte
	chunks []int
	i      int
}

func (c *chunkReader) Read(p []byte) (int, error) {
	if len(c.data) == 0 {
		return 0, io.EOF
	}
	n := c.chunks[c.i%len(c.chunks)]
	c.i++
	if n > len(p) {
		n = len(p)
	}
	if n > len(c.data) {
		n = len(c.data)
	}
	copy(p, c.data[:n])
	c.data = c.data[n:]
	return n, nil
}

func c13Pack(src []byte) string {
	return Safely(func() string { return "ok " + Hx(capnp.VerifPack(nil, src)) })
}

// Unpack appending to a dst whose spare capacity holds stale non-zero bytes (the scratch-buffer
// pattern buf, _ = Unpack(buf[:0], next)): the appended part must equal Unpack(nil, src).
func c13UnpackDirty(src []byte, pre int) string {
	return Safely(func() string {
		buf := make([]byte, 1<<16)
		for i := range buf {
			buf[i] = 0xa5
		}
		out, err := capnp.VerifUnpack(buf[:pre], src)
		if err != nil {
			return "err"
		}
		if len(out) < pre {
			return "short"
		}
		for i := 0; i < pre; i++ {
			if out[i] != 0xa5 {
				return "prefix-clobbered"
			}
		}
		return "ok " + Hx(out[pre:])
	})
}

func c13Unpack(src []byte) string {
	return Safely(func() string {
		out, err := capnp.VerifUnpack(nil, src)
		if err != nil {
			return "err"
		}
		return "ok " + Hx(out)
	})
}

// stream through Reader.Read with request sizes `sizes` (cycled) and underlying chunking.
func c13Stream(src []byte, chunks, sizes []int, bufSize int, wordAPI bool) string {
	return Safely(func() string {
		rd := capnp.VerifNewPackedReader(&chunkReader{data: append([]byte(nil), src...), chunks: chunks}, bufSize)
		var out []byte
		for k := 0; ; k++ {
			if len(out) > 64<<20 {
				return "runaway"
			}
			if wordAPI {
				var w [8]byte
				err := rd.ReadWord(w[:])
				if err == io.EOF {
					return "ok " + Hx(out)
				}
				if err != nil {
					return "err"
				}
				out = append(out, w[:]...)
				continue
			}
			buf := make([]byte, sizes[k%len(sizes)])
			n, err := rd.Read(buf)
			out = append(out, buf[:n]...)
			if err == io.EOF {
				return "ok " + Hx(out)
			}
			if err != nil {
				return "err"
			}
			if n == 0 && k > 1<<22 {
				return "stuck"
			}
		}
	})
}

// c13StreamFull consumes the Reader the way io.ReadFull does (capnp.Decoder and the packed RPC
// transport read this way): an error returned together with the bytes that complete the
// requested size is DROPPED, as io.ReadAtLeast drops it, so a truncation the Reader reports only
// once, together with data, is lost.  The verdict must still be the one-shot decoder's.
func c13StreamFull(src []byte, chunks, sizes []int, bufSize int) string {
	return Safely(func() string {
		rd := capnp.VerifNewPackedReader(&chunkReader{data: append([]byte(nil), src...), chunks: chunks}, bufSize)
		var out []byte
		for k := 0; ; k++ {
			if len(out) > 64<<20 {
				return "runaway"
			}
			buf := make([]byte, sizes[k%len(sizes)])
			n := 0
			var err error
			for n < len(buf) && err == nil {
				var nn int
				nn, err = rd.Read(buf[n:])
				n += nn
			}
			if n >= len(buf) {
				err = nil
			}
			out = append(out, buf[:n]...)
			if err == io.EOF {
				return "ok " + Hx(out)
			}
			if err != nil {
				return "err"
			}
		}
	})
}

// frameOf builds the stream frame of the given segments (segment table + segments).
func frameOf(segs [][]byte) []byte {
	var b []byte
	put := func(v uint32) { b = append(b, byte(v), byte(v>>8), byte(v>>16), byte(v>>24)) }
	put(uint32(len(segs) - 1))
	for _, s := range segs {
		put(uint32(len(s) / 8))
	}
	if len(b)%8 != 0 {
		put(0)
	}
	for _, s := range segs {
		b = append(b, s...)
	}
	return b
}

// c13EncPacked: the message with the given frame pieces (segment table, then one piece per segment)
// written by NewPackedEncoder, which packs piece by piece: the bytes must be the concatenation of
// Pack(piece) (the model's prediction) and NewPackedDecoder / UnmarshalPacked must give the frame back.
func c13EncPacked(pieces [][]byte) string {
	return Safely(func() string {
		frame := bytes.Join(pieces, nil)
		msg, err := capnp.Unmarshal(append([]byte(nil), frame...))
		if err != nil {
			return "unmarshal-err"
		}
		var w bytes.Buffer
		if err := capnp.NewPackedEncoder(&w).Encode(msg); err != nil {
			return "encode-err"
		}
		enc := append([]byte(nil), w.Bytes()...)
		return packedBack(enc, frame)
	})
}

// c13MarshalPacked: MarshalPacked of the message whose frame is `frame` must be Pack(frame).
func c13MarshalPacked(frame []byte) string {
	return Safely(func() string {
		msg, err := capnp.Unmarshal(append([]byte(nil), frame...))
		if err != nil {
			return "unmarshal-err"
		}
		mp, err := msg.MarshalPacked()
		if err != nil {
			return "marshalpacked-err"
		}
		return packedBack(mp, frame)
	})
}

func packedBack(enc, frame []byte) string {
	m2, err := capnp.NewPackedDecoder(bytes.NewReader(enc)).Decode()
	if err != nil {
		return "decode-err"
	}
	b2, err := m2.Marshal()
	if err != nil || !bytes.Equal(b2, frame) {
		return "decode-differs"
	}
	m3, err := capnp.UnmarshalPacked(enc)
	if err != nil {
		return "unmarshalpacked-err"
	}
	b3, err := m3.Marshal()
	if err != nil || !bytes.Equal(b3, frame) {
		return "unmarshalpacked-differs"
	}
	return "ok " + Hx(enc)
}

// c13DecPacked: NewPackedDecoder over a (possibly cut) packed stream of frames: "acc k" when k
// messages were decoded and the stream then ended with a clean io.EOF, "rej" for any other end.
func c13DecPacked(src []byte, chunks []int, reuse bool) string {
	return Safely(func() string {
		d := capnp.NewPackedDecoder(&chunkReader{data: append([]byte(nil), src...), chunks: chunks})
		if reuse {
			d.ReuseBuffer()
		}
		for k := 0; k < 1<<20; k++ {
			_, err := d.Decode()
			if err == io.EOF {
				return fmt.Sprintf("acc %d", k)
			}
			if err != nil {
				return "rej"
			}
		}
		return "runaway"
	})
}

func min(a, b int) int {
	if a < b {
		return a
	}
	return b
}

// genWord produces one word with a chosen zero/non-zero pattern.
func genWord(r *Rand, mask byte) []byte {
	w := make([]byte, 8)
	for i := 0; i < 8; i++ {
		if mask&(1<<uint(i)) != 0 {
			w[i] = byte(1 + r.Intn(255))
		}
	}
	return w
}

func genPayload(r *Rand, maxWords int) []byte {
	var b []byte
	nw := 0
	for nw < maxWords {
		switch r.Pick(3, 3, 3, 2, 1) {
		case 0: // zero run, lengths around the 255-word limit
			n := []int{1, 2, 3, 254, 255, 256, 257, 510, 511}[r.Intn(9)]
			if r.Bool() {
				n = 1 + r.Intn(8)
			}
			b = append(b, make([]byte, 8*n)...)
			nw += n
		case 1: // literal run (no zero bytes, or one zero per word)
			n := []int{1, 2, 3, 254, 255, 256, 257, 510, 511}[r.Intn(9)]
			if r.Bool() {
				n = 1 + r.Intn(8)
			}
			for i := 0; i < n; i++ {
				m := byte(0xff)
				if r.Intn(4) == 0 {
					m &^= 1 << uint(r.Intn(8))
				}
				b = append(b, genWord(r, m)...)
			}
			nw += n
		case 2: // random tag
			b = append(b, genWord(r, byte(r.U64()))...)
			nw++
		case 3: // word with exactly two zeros: ends a literal run
			m := byte(0xff) &^ (1 << uint(r.Intn(8)))
			m &^= 1 << uint(r.Intn(8))
			b = append(b, genWord(r, m)...)
			nw++
		case 4:
			b = append(b, genWord(r, 0xff)...)
			nw++
		}
		if r.Intn(6) == 0 { // a word with a single non-zero byte (any position) right after whatever came
			b = append(b, genWord(r, 1<<uint(r.Intn(8)))...)
			nw++
		}
	}
	return b
}

func genChunks(r *Rand) []int {
	n := 1 + r.Intn(4)
	c := make([]int, n)
	for i := range c {
		c[i] = []int{1, 2, 3, 7, 8, 9, 10, 17, 64, 4096}[r.Intn(10)]
	}
	return c
}

func runC13(out *Out, r *Rand, tier string, replay []string) {
	do := func(line string) {
		f := strings.Fields(line)
		switch f[0] {
		case "pack":
			src := Unhx(f[1])
			res := c13Pack(src)
			out.Case("pack", line, res, Cls(res), len(src) > 0)
		case "unpack":
			src := Unhx(f[1])
			res := c13Unpack(src)
			out.Case("unpack", line, res, Cls(res), len(src) > 1)
		case "unpackdirty":
			src := Unhx(f[1])
			res := c13UnpackDirty(src, ParseInts(f[2])[0])
			out.Case("unpackdirty", line, res, Cls(res), len(src) > 1)
		case "stream":
			src := Unhx(f[1])
			res := c13Stream(src, ParseInts(f[2]), ParseInts(f[3]), ParseInts(f[4])[0], false)
			out.Case("stream", line, res, Cls(res), len(src) > 1)
		case "streamword":
			src := Unhx(f[1])
			res := c13Stream(src, ParseInts(f[2]), []int{8}, ParseInts(f[3])[0], true)
			out.Case("streamword", line, res, Cls(res), len(src) > 1)
		case "streamfull":
			src := Unhx(f[1])
			res := c13StreamFull(src, ParseInts(f[2]), ParseInts(f[3]), ParseInts(f[4])[0])
			out.Case("streamfull", line, res, Cls(res), len(src) > 1)
		case "encpacked":
			var pieces [][]byte
			for _, h := range f[1:] {
				pieces = append(pieces, Unhx(h))
			}
			res := c13EncPacked(pieces)
			out.Case("encpacked", line, res, Cls(res), len(pieces) > 2)
		case "marshalpacked":
			src := Unhx(f[1])
			res := c13MarshalPacked(src)
			out.Case("marshalpacked", line, res, Cls(res), len(src) > 16)
		case "decpacked":
			src := Unhx(f[1])
			res := c13DecPacked(src, ParseInts(f[3]), f[4] == "1")
			out.Case("decpacked", line, res, Cls(res), len(src) > 1)
		default:
			panic("bad case " + line)
		}
	}
	if replay != nil {
		for _, l := range replay {
			do(l)
		}
		out.Close("replay")
		return
	}
	n := 1500
	maxWords := 40
	if tier == "thorough" {
		n = 40000
		maxWords = 700
	}
	// exhaustive part: every tag pattern as a single word, alone and followed by a zero / literal word
	for m := 0; m < 256; m++ {
		w := genWord(r, byte(m))
		do("pack " + Hx(w))
		do("pack " + Hx(append(append([]byte{}, w...), make([]byte, 8)...)))
		do("pack " + Hx(append(append([]byte{}, w...), genWord(r, 0xff)...)))
		// a zero word (or two) followed by the pattern word: the zero-run scan must stop at it
		do("pack " + Hx(append(make([]byte, 8), w...)))
		do("pack " + Hx(append(make([]byte, 16), w...)))
		p := capnp.VerifPack(nil, w)
		do("unpack " + Hx(p))
		do(fmt.Sprintf("unpackdirty %s %d", Hx(p), 8*(m%3)))
		do(fmt.Sprintf("unpackdirty %s %d", Hx(capnp.VerifPack(nil, append(append(make([]byte, 8), w...), make([]byte, 24)...))), 8))
		for cut := 0; cut < len(p); cut++ {
			do("unpack " + Hx(p[:cut]))
			do(fmt.Sprintf("streamword %s %s %d", Hx(p[:cut]), "4096", 16))
			do(fmt.Sprintf("streamfull %s %s %s %d", Hx(p[:cut]), "4096", "8", 16))
		}
		// the same word as the LAST word of a longer output, the stream cut before its count byte
		p2 := capnp.VerifPack(nil, append(genWord(r, 0x55), w...))
		for cut := len(p2) - 2; cut < len(p2) && cut >= 0; cut++ {
			do(fmt.Sprintf("streamfull %s %s %s %d", Hx(p2[:cut]), "4096", "16", 4096))
			do(fmt.Sprintf("streamfull %s %s %s %d", Hx(p2[:cut]), "3", "8", 16))
		}
	}
	genFrames(do, r, tier)
	for i := 0; i < n; i++ {
		mw := maxWords
		if i%10 != 0 {
			mw = 1 + r.Intn(12)
		}
		payload := genPayload(r, mw)
		do("pack " + Hx(payload))
		packedForm := safePack(payload)
		// valid packed input through every decoder
		do("unpack " + Hx(packedForm))
		if len(payload) < 30000 {
			do(fmt.Sprintf("unpackdirty %s %d", Hx(packedForm), 8*r.Intn(5)))
		}
		do(fmt.Sprintf("stream %s %s %s %d", Hx(packedForm), Ints(genChunks(r)), Ints(genSizes(r)), 16+r.Intn(3)*2040))
		do(fmt.Sprintf("streamword %s %s %d", Hx(packedForm), Ints(genChunks(r)), 16+r.Intn(2)*4080))
		// ReadFull-style consumers: request sizes that end exactly on the output's end, on a word, or anywhere
		do(fmt.Sprintf("streamfull %s %s %s %d", Hx(packedForm), Ints(genChunks(r)), Ints(genFullSizes(r, len(payload))), 16+r.Intn(3)*2040))
		// truncations: every prefix for short inputs, random prefixes otherwise
		if len(packedForm) <= 40 {
			for cut := 0; cut < len(packedForm); cut++ {
				do("unpack " + Hx(packedForm[:cut]))
				do(fmt.Sprintf("stream %s %s %s %d", Hx(packedForm[:cut]), Ints(genChunks(r)), Ints(genSizes(r)), 16))
				do(fmt.Sprintf("streamword %s %s %d", Hx(packedForm[:cut]), Ints(genChunks(r)), 16))
				do(fmt.Sprintf("streamfull %s %s %s %d", Hx(packedForm[:cut]), Ints(genChunks(r)), Ints(genFullSizes(r, len(payload))), 16))
				do(fmt.Sprintf("streamfull %s %s %s %d", Hx(packedForm[:cut]), "4096", "8", 4096))
			}
		} else {
			for k := 0; k < 6; k++ {
				cut := r.Intn(len(packedForm))
				do("unpack " + Hx(packedForm[:cut]))
				do(fmt.Sprintf("stream %s %s %s %d", Hx(packedForm[:cut]), Ints(genChunks(r)), Ints(genSizes(r)), 16+r.Intn(2)*4080))
				do(fmt.Sprintf("streamword %s %s %d", Hx(packedForm[:cut]), Ints(genChunks(r)), 16))
				do(fmt.Sprintf("streamfull %s %s %s %d", Hx(packedForm[:cut]), Ints(genChunks(r)), Ints(genFullSizes(r, len(payload))), 16+r.Intn(2)*4080))
			}
		}
		// malformed stream: mutated bytes / random bytes
		mut := append([]byte(nil), packedForm...)
		for k := 0; k < 1+r.Intn(3) && len(mut) > 0; k++ {
			switch r.Intn(3) {
			case 0:
				mut[r.Intn(len(mut))] = byte(r.U64())
			case 1:
				mut[r.Intn(len(mut))] = []byte{0, 0xff, 1, 0xfe}[r.Intn(4)]
			case 2:
				j := r.Intn(len(mut))
				mut = append(mut[:j], mut[j+1:]...)
			}
		}
		do("unpack " + Hx(mut))
		do(fmt.Sprintf("stream %s %s %s %d", Hx(mut), Ints(genChunks(r)), Ints(genSizes(r)), 16))
		if i%5 == 0 {
			rnd := make([]byte, r.Intn(30))
			for j := range rnd {
				rnd[j] = []byte{0, 0xff, byte(r.U64()), byte(r.Intn(4))}[r.Intn(4)]
			}
			do("unpack " + Hx(rnd))
			do(fmt.Sprintf("streamword %s %s %d", Hx(rnd), Ints(genChunks(r)), 16))
		}
	}
	out.Close("payloads: runs of zero / literal / mixed words with run lengths around 254..257 and 510; packed inputs: valid, every or random prefix, mutated, random. distinct = distinct case line; non-trivial = non-empty payload / packed input of at least 2 bytes")
}

// genFullSizes: request sizes for the ReadFull-style consumer, biased to sizes that divide the
// output length exactly (the last request then ends exactly where the data ends).
func genFullSizes(r *Rand, outLen int) []int {
	switch r.Intn(4) {
	case 0:
		if outLen > 0 {
			return []int{outLen}
		}
	case 1:
		return []int{8}
	case 2:
		if outLen >= 16 {
			return []int{8, outLen - 8}
		}
	}
	return genSizes(r)
}

// genFrames: packed Encoder / Decoder cases on whole messages (C13's observation points
// NewPackedEncoder / MarshalPacked / UnmarshalPacked / NewPackedDecoder).
func genFrames(do func(string), r *Rand, tier string) {
	seg := func(words int, dense bool) []byte {
		if dense {
			b := make([]byte, 8*words)
			for i := range b {
				b[i] = byte(1 + r.Intn(255))
			}
			return b
		}
		return genPayloadExact(r, words)
	}
	var msgs [][][]byte
	// small multi-segment messages
	for i := 0; i < 12; i++ {
		n := 1 + r.Intn(4)
		var segs [][]byte
		for j := 0; j < n; j++ {
			segs = append(segs, seg(1+r.Intn(6), r.Intn(3) == 0))
		}
		msgs = append(msgs, segs)
	}
	// large ones: packed sizes around 64 KiB before the last segment (dense words pack to 1.03x)
	for _, big := range []int{8000, 8190, 8192, 8200, 9000} {
		msgs = append(msgs, [][]byte{seg(big, true), seg(3, false)})
		msgs = append(msgs, [][]byte{seg(2, false), seg(big, true), seg(1+r.Intn(4), true)})
	}
	if tier == "thorough" {
		for _, big := range []int{16384, 20000} {
			msgs = append(msgs, [][]byte{seg(big, true), seg(big/2, true), seg(5, false)})
		}
	}
	for _, segs := range msgs {
		fr := frameOf(segs)
		hdrLen := len(fr)
		line := ""
		for _, sg := range segs {
			hdrLen -= len(sg)
			line += " " + Hx(sg)
		}
		do("encpacked " + Hx(fr[:hdrLen]) + line)
		do("marshalpacked " + Hx(fr))
	}
	// streams of frames through NewPackedDecoder, whole and cut at every byte near the frame ends
	for i := 0; i < 10; i++ {
		nf := 1 + r.Intn(3)
		var stream []byte
		var lens []int
		var ends []int
		total := 0
		for j := 0; j < nf; j++ {
			var segs [][]byte
			for k := 0; k < 1+r.Intn(2); k++ {
				words := 1 + r.Intn(4)
				s := genPayloadExact(r, words)
				if k == 0 && r.Bool() {
					// the frame ends with an all-zero or a dense word: its run count byte is the stream's last byte
					if r.Bool() {
						copy(s[len(s)-8:], make([]byte, 8))
					} else {
						copy(s[len(s)-8:], genWord(r, 0xff))
					}
				}
				segs = append(segs, s)
			}
			if len(segs) == 2 {
				segs[0], segs[1] = segs[1], segs[0]
			}
			fr := frameOf(segs)
			total += len(fr)
			lens = append(lens, total)
			stream = append(stream, capnp.VerifPack(nil, fr)...)
			ends = append(ends, len(stream))
		}
		cuts := map[int]bool{len(stream): true}
		for _, e := range ends {
			for d := -3; d <= 1; d++ {
				if e+d >= 0 && e+d <= len(stream) {
					cuts[e+d] = true
				}
			}
		}
		for k := 0; k < 6; k++ {
			cuts[r.Intn(len(stream)+1)] = true
		}
		for cut := 0; cut <= len(stream); cut++ {
			if cuts[cut] {
				do(fmt.Sprintf("decpacked %s %s %s %d", Hx(stream[:cut]), Ints(lens), Ints(genChunks(r)), r.Intn(2)))
			}
		}
	}
}

// genPayloadExact: a payload of exactly `words` words.
func genPayloadExact(r *Rand, words int) []byte {
	b := genPayload(r, words)
	return b[:8*words]
}

func genSizes(r *Rand) []int {
	n := 1 + r.Intn(3)
	c := make([]int, n)
	for i := range c {
		c[i] = []int{1, 2, 3, 7, 8, 9, 15, 16, 17, 64, 4096}[r.Intn(11)]
	}
	return c
}

func safePack(b []byte) (res []byte) {
	defer func() { recover() }()
	return capnp.VerifPack(nil, b)
}

var _ = bytes.Equal
