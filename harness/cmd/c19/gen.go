package main

// Reading a struct through the accessors capnpc-go generated for it (by reflection on the
// generated Go type), shaped like the Go type pogs extracts into.

import (
	"fmt"
	"math"
	"reflect"
	"strings"

	capnp "capnproto.org/go/capnp/v3"
	"capnproto.org/go/capnp/v3/pogs/verifair"
	"capnproto.org/go/capnp/v3/std/capnp/rpc"
)

type genErr struct{ err error }

var genTypes = map[uint64]reflect.Type{}

func init() {
	for id, t := range verifair.GenTypes {
		genTypes[id] = t
	}
	genTypes[rpc.Message_TypeID] = reflect.TypeOf(rpc.Message{})
	genTypes[rpc.Call_TypeID] = reflect.TypeOf(rpc.Call{})
	genTypes[rpc.Return_TypeID] = reflect.TypeOf(rpc.Return{})
	genTypes[rpc.Payload_TypeID] = reflect.TypeOf(rpc.Payload{})
	genTypes[rpc.CapDescriptor_TypeID] = reflect.TypeOf(rpc.CapDescriptor{})
	genTypes[rpc.PromisedAnswer_TypeID] = reflect.TypeOf(rpc.PromisedAnswer{})
	genTypes[rpc.PromisedAnswer_Op_TypeID] = reflect.TypeOf(rpc.PromisedAnswer_Op{})
	genTypes[rpc.MessageTarget_TypeID] = reflect.TypeOf(rpc.MessageTarget{})
	genTypes[rpc.Exception_TypeID] = reflect.TypeOf(rpc.Exception{})
	genTypes[rpc.Finish_TypeID] = reflect.TypeOf(rpc.Finish{})
	genTypes[rpc.Bootstrap_TypeID] = reflect.TypeOf(rpc.Bootstrap{})
	genTypes[rpc.Disembargo_TypeID] = reflect.TypeOf(rpc.Disembargo{})
	genTypes[rpc.Resolve_TypeID] = reflect.TypeOf(rpc.Resolve{})
	genTypes[rpc.Release_TypeID] = reflect.TypeOf(rpc.Release{})
}

func wrapGen(id uint64, st capnp.Struct) reflect.Value {
	t, ok := genTypes[id]
	if !ok {
		panic(fmt.Sprintf("no generated type for %#x", id))
	}
	v := reflect.New(t).Elem()
	v.Field(0).Set(reflect.ValueOf(st))
	return v
}

func title(s string) string { return strings.ToUpper(s[:1]) + s[1:] }

func chkErr(v reflect.Value) {
	if !v.IsNil() {
		panic(genErr{v.Interface().(error)})
	}
}

func (g *gprinter) genStruct(mn *mnode, gv reflect.Value) {
	var which uint64
	hasWhich := false
	ws := "-"
	if mn.hasDisc {
		which = gv.MethodByName("Which").Call(nil)[0].Uint()
		switch mn.wk {
		case 'w':
			hasWhich = true
			ws = fmt.Sprintf("%x", which)
		case 'x':
			if which != uint64(mn.fixed) {
				panic(genErr{fmt.Errorf("fixed which mismatch")})
			}
			hasWhich = true
		}
	}
	fmt.Fprintf(&g.sb, " s %s %d", ws, len(mn.fields))
	for _, f := range mn.fields {
		if !f.present {
			g.sb.WriteString(" _")
			continue
		}
		if f.dv != 0xffff {
			if !hasWhich {
				panic(genErr{fmt.Errorf("union member without Which")})
			}
			if uint64(f.dv) != which {
				g.sb.WriteString(" _")
				continue
			}
		}
		name := title(f.name)
		if f.isGroup {
			r := gv.MethodByName(name).Call(nil)[0]
			g.genStruct(f.group, r)
			continue
		}
		if f.typ.kind == 'T' && f.typ.bytes {
			name += "Bytes"
		}
		m := gv.MethodByName(name)
		if !m.IsValid() {
			panic("no generated getter " + name + " on " + gv.Type().String())
		}
		rs := m.Call(nil)
		if len(rs) == 2 {
			chkErr(rs[1])
		}
		g.genVal(f, f.typ, rs[0])
	}
}

func (g *gprinter) genVal(f *mfield, mt *mtype, r reflect.Value) {
	switch mt.kind {
	case 'b':
		if r.Bool() {
			g.sb.WriteString(" t")
		} else {
			g.sb.WriteString(" f")
		}
	case 'i':
		fmt.Fprintf(&g.sb, " i%d %x", mt.w, bitsOf(r))
	case 'T', 'D':
		if r.Kind() == reflect.String {
			g.bytes([]byte(r.String()), false)
		} else {
			g.bytes(r.Bytes(), r.IsNil())
		}
	case 'S':
		st := r.Field(0).Interface().(capnp.Struct)
		if !st.IsValid() && mt.isptr {
			g.sb.WriteString(" sn")
			return
		}
		g.genStruct(mt.node, r)
	case 'L':
		l := r.FieldByName("List").Interface().(capnp.List)
		g.genList(mt.elem, l)
	case 'A':
		p := r.Interface().(capnp.Ptr)
		g.sb.WriteString(" p " + exportPtr(p))
	default:
		panic("unsupported")
	}
}

// genList renders a list with the typed list accessors of the runtime library, which is
// what the generated X_List.At / capnp.TextList.At etc. are.
func (g *gprinter) genList(e *mtype, l capnp.List) {
	if !l.IsValid() {
		g.sb.WriteString(" ln")
		return
	}
	n := l.Len()
	fmt.Fprintf(&g.sb, " l %d", n)
	for i := 0; i < n; i++ {
		switch e.kind {
		case 'b':
			if (capnp.BitList{List: l}).At(i) {
				g.sb.WriteString(" t")
			} else {
				g.sb.WriteString(" f")
			}
		case 'i':
			var x uint64
			switch e.w {
			case 8:
				x = uint64(capnp.UInt8List{List: l}.At(i))
			case 16:
				x = uint64(capnp.UInt16List{List: l}.At(i))
			case 32:
				x = uint64(math.Float32bits(capnp.Float32List{List: l}.At(i)))
			case 64:
				x = uint64(capnp.Int64List{List: l}.At(i))
			}
			fmt.Fprintf(&g.sb, " i%d %x", e.w, x)
		case 'T':
			if e.bytes {
				b, err := capnp.TextList{List: l}.BytesAt(i)
				if err != nil {
					panic(genErr{err})
				}
				g.bytes(b, b == nil)
			} else {
				s, err := capnp.TextList{List: l}.At(i)
				if err != nil {
					panic(genErr{err})
				}
				g.bytes([]byte(s), false)
			}
		case 'D':
			b, err := capnp.DataList{List: l}.At(i)
			if err != nil {
				panic(genErr{err})
			}
			g.bytes(b, b == nil)
		case 'L':
			p, err := capnp.PointerList{List: l}.At(i)
			if err != nil {
				panic(genErr{err})
			}
			g.genList(e.elem, p.List())
		case 'S':
			g.genStruct(e.node, wrapGen(e.tid, l.Struct(i)))
		default:
			panic("unsupported list element")
		}
	}
}

// genRead: "ok <gval>" | "err" | "panic"
func genRead(mn *mnode, st capnp.Struct) (res string) {
	defer func() {
		if e := recover(); e != nil {
			if _, ok := e.(genErr); ok {
				res = "err"
				return
			}
			res = "panic"
		}
	}()
	g := &gprinter{}
	g.genStruct(mn, wrapGen(mn.node.Id(), st))
	return "ok" + g.sb.String()
}
