package main

// Generators: random Go values (as gval tokens) and random struct trees for a mapped node.

import (
	"fmt"
	"strings"

	. "verifh/hc"
)

type gen struct {
	r              *Rand
	forceRootWhich int // >= 0: discriminant for the next root struct tree (depth 0)
}

func (g *gen) bytesVal(max int) []byte {
	n := g.r.Intn(max + 1)
	b := make([]byte, n)
	for i := range b {
		switch g.r.Intn(4) {
		case 0:
			b[i] = 0
		case 1:
			b[i] = byte(g.r.U64())
		default:
			b[i] = byte('a' + g.r.Intn(26))
		}
	}
	return b
}

func (g *gen) scalar(w int) uint64 {
	var x uint64
	switch g.r.Intn(6) {
	case 0:
		x = 0
	case 1:
		x = ^uint64(0)
	case 2:
		x = uint64(g.r.Intn(300))
	case 3:
		x = 1 << uint(g.r.Intn(64))
	default:
		x = g.r.U64()
	}
	if w < 64 {
		x &= (1 << uint(w)) - 1
	}
	return x
}

// float32 values: a signalling NaN does not survive float32 -> float64 -> float32 (reflect.Value
// holds float64); floats are outside the compared observables, so only quiet NaNs are generated.
func quiet32(x uint64) uint64 {
	if x&0x7f800000 == 0x7f800000 && x&0x007fffff != 0 {
		x |= 0x00400000
	}
	return x
}

// quietWords applies quiet32 to every aligned 32-bit word (used where a wrong-kinded list may be
// read as a Float32 list).
func quietWords(b []byte) []byte {
	for i := 0; i+4 <= len(b); i += 4 {
		w := uint64(b[i]) | uint64(b[i+1])<<8 | uint64(b[i+2])<<16 | uint64(b[i+3])<<24
		w = quiet32(w)
		b[i], b[i+1], b[i+2], b[i+3] = byte(w), byte(w>>8), byte(w>>16), byte(w>>24)
	}
	return b
}

func (g *gen) pickWhich(mn *mnode) uint16 {
	var mapped, all []uint16
	for _, f := range mn.fields {
		if f.dv != 0xffff {
			all = append(all, f.dv)
			if f.present {
				mapped = append(mapped, f.dv)
			}
		}
	}
	switch k := g.r.Intn(10); {
	case k < 7 && len(mapped) > 0:
		return mapped[g.r.Intn(len(mapped))]
	case k < 9 && len(all) > 0:
		return all[g.r.Intn(len(all))]
	default:
		return uint16(g.r.U64())
	}
}

// gstructIn: an input value for the Go type of mn ("s <which> <n> ..."), every mapped field set
// (inactive union members too, half of the time).
func (g *gen) gstructIn(mn *mnode, depth int) string {
	var sb strings.Builder
	which := g.pickWhich(mn)
	ws := "-"
	if mn.wk == 'w' {
		ws = fmt.Sprintf("%x", which)
	}
	if mn.wk == 'x' {
		which = mn.fixed
	}
	fillInactive := g.r.Bool()
	fmt.Fprintf(&sb, "s %s %d", ws, len(mn.fields))
	for _, f := range mn.fields {
		if !f.present {
			sb.WriteString(" _")
			continue
		}
		active := f.dv == 0xffff || (mn.wk != 'n' && f.dv == which)
		if !active && (!fillInactive || depth > 0) {
			sb.WriteString(" _")
			continue
		}
		d := depth
		if !active {
			d = 9
		}
		if f.isGroup {
			// a group is a struct value or a non-nil pointer (a nil group pointer is an Insert error)
			if g.r.Intn(12) == 0 && f.group.goType != nil && isPtrField(mn, f) {
				sb.WriteString(" sn")
			} else {
				sb.WriteString(" " + g.gstructIn(f.group, d))
			}
			continue
		}
		sb.WriteString(" " + g.gvalIn(f.typ, d))
	}
	return sb.String()
}

func isPtrField(mn *mnode, f *mfield) bool {
	t := mn.goType
	for i, x := range f.path {
		if i > 0 && t.Kind().String() == "ptr" {
			t = t.Elem()
		}
		t = t.Field(x).Type
	}
	return t.Kind().String() == "ptr"
}

func (g *gen) gvalIn(mt *mtype, depth int) string {
	switch mt.kind {
	case 'b':
		if g.r.Bool() {
			return "t"
		}
		return "f"
	case 'i':
		x := g.scalar(mt.w)
		if mt.w == 32 {
			x = quiet32(x)
		}
		return fmt.Sprintf("i%d %x", mt.w, x)
	case 'T':
		if mt.bytes && g.r.Intn(4) == 0 {
			return "yn"
		}
		if g.r.Intn(4) == 0 {
			return "y -"
		}
		return "y " + hx(g.bytesVal(6))
	case 'D':
		switch g.r.Intn(5) {
		case 0:
			return "yn"
		case 1:
			return "y -"
		}
		return "y " + hx(g.bytesVal(6))
	case 'L':
		if g.r.Intn(5) == 0 {
			return "ln"
		}
		n := g.r.Intn(4)
		if depth >= 3 || g.r.Intn(5) == 0 {
			n = 0
		}
		s := fmt.Sprintf("l %d", n)
		for i := 0; i < n; i++ {
			s += " " + g.gvalIn(mt.elem, depth+1)
		}
		return s
	case 'S':
		if mt.isptr && (depth >= 3 || g.r.Intn(5) == 0) {
			return "sn"
		}
		return g.gstructIn(mt.node, depth+1)
	case 'A':
		return "p " + g.randPtr(1).String()
	}
	panic("gen: unsupported kind")
}

// ---------------------------------------------------------------- struct trees

func (g *gen) randPtr(depth int) *aPtr {
	switch g.r.Intn(9) {
	case 0:
		return &aPtr{kind: 'N'}
	case 1:
		return &aPtr{kind: 'B', bytes: g.bytesVal(5)}
	case 2:
		return &aPtr{kind: 'B', bytes: append(g.bytesVal(5), 0)}
	case 3:
		p := &aPtr{kind: 'b'}
		for i := g.r.Intn(11); i > 0; i-- {
			p.bits = append(p.bits, g.r.Bool())
		}
		return p
	case 4:
		p := &aPtr{kind: 'P', w: []int{0, 16, 32, 64}[g.r.Intn(4)]}
		for i := g.r.Intn(4); i > 0; i-- {
			x := uint64(0)
			if p.w > 0 {
				x = g.scalar(p.w)
			}
			if p.w == 32 {
				x = quiet32(x)
			}
			p.prims = append(p.prims, x)
		}
		return p
	case 5:
		p := &aPtr{kind: 'L'}
		if depth < 3 {
			for i := g.r.Intn(3); i > 0; i-- {
				p.ptrs = append(p.ptrs, g.randPtr(depth+1))
			}
		}
		return p
	case 6:
		// composite list: data only (a pointer-typed read from it is outside the model)
		p := &aPtr{kind: 'C'}
		dw := g.r.Intn(3)
		for i := g.r.Intn(3); i > 0; i-- {
			p.structs = append(p.structs, &aStruct{data: quietWords(g.dataBytes(dw * 8))})
		}
		return p
	default:
		return &aPtr{kind: 'S', st: g.randStruct(depth + 1)}
	}
}

func (g *gen) dataBytes(n int) []byte {
	b := make([]byte, n)
	mode := g.r.Intn(3)
	for i := range b {
		switch mode {
		case 0:
		case 1:
			if g.r.Intn(4) == 0 {
				b[i] = byte(g.r.U64())
			}
		default:
			b[i] = byte(g.r.U64())
		}
	}
	return b
}

func (g *gen) randStruct(depth int) *aStruct {
	s := &aStruct{data: g.dataBytes(8 * g.r.Intn(3))}
	if depth < 3 {
		for i := g.r.Intn(3); i > 0; i-- {
			s.ptrs = append(s.ptrs, g.randPtr(depth+1))
		}
	}
	return s
}

func (g *gen) sizes(mn *mnode) (int, int) {
	sn := mn.node.StructNode()
	dw, pc := int(sn.DataWordCount()), int(sn.PointerCount())
	switch g.r.Intn(7) {
	case 0:
		dw = g.r.Intn(dw + 1)
	case 1:
		pc = g.r.Intn(pc + 1)
	case 2:
		dw += 1 + g.r.Intn(2)
		pc += g.r.Intn(2)
	}
	return dw, pc
}

// astruct: a struct tree for the schema node of mn.
func (g *gen) astruct(mn *mnode, depth int) *aStruct {
	dw, pc := g.sizes(mn)
	return g.astructSized(mn, depth, dw, pc)
}

func putU16(b []byte, off int, x uint16) {
	if off+2 <= len(b) {
		b[off] = byte(x)
		b[off+1] = byte(x >> 8)
	}
}

func (g *gen) astructSized(mn *mnode, depth, dw, pc int) *aStruct {
	s := &aStruct{data: g.dataBytes(dw * 8)}
	for i := 0; i < pc; i++ {
		s.ptrs = append(s.ptrs, &aPtr{kind: 'N'})
	}
	g.fillNode(mn, s, depth)
	return s
}

// fillNode sets the discriminant (if any) and a pointer for every active pointer field.
func (g *gen) fillNode(mn *mnode, s *aStruct, depth int) {
	which := uint16(0xffff)
	if mn.hasDisc {
		which = g.pickWhich(mn)
		if mn.wk == 'x' && g.r.Intn(8) != 0 {
			which = mn.fixed
		}
		if depth == 0 && g.forceRootWhich >= 0 {
			which = uint16(g.forceRootWhich)
		}
		putU16(s.data, int(mn.discOff)*2, which)
	}
	for _, f := range mn.fields {
		if f.dv != 0xffff && f.dv != which {
			continue
		}
		if f.isGroup {
			if f.group != nil {
				g.fillNode(f.group, s, depth)
			}
			continue
		}
		if f.typ.kind == 'i' && f.typ.f32 && int(f.off)*4+4 <= len(s.data) {
			// keep the Float32 value (data XOR default) a non-signalling NaN, see quiet32
			var d uint64
			fmt.Sscanf(f.dflt, "z %x", &d)
			b := s.data[f.off*4:]
			w := uint64(b[0]) | uint64(b[1])<<8 | uint64(b[2])<<16 | uint64(b[3])<<24
			w = quiet32(w^d) ^ d
			b[0], b[1], b[2], b[3] = byte(w), byte(w>>8), byte(w>>16), byte(w>>24)
		}
		switch f.typ.kind {
		case 'v', 'b', 'i':
			continue
		}
		if int(f.off) >= len(s.ptrs) {
			continue
		}
		switch k := g.r.Intn(20); {
		case k < 3:
			s.ptrs[f.off] = &aPtr{kind: 'N'}
		case k < 6:
			s.ptrs[f.off] = g.randPtr(depth + 1) // possibly of the wrong kind
		default:
			s.ptrs[f.off] = g.ptrFor(f.typ, depth+1)
		}
	}
}

// upgradedList: a foreign-encoded list (Cap'n Proto list upgrade): the List(T) field arrives as a
// composite list whose elements start with the T (1..2 data words, 0..2 pointers; for pointer
// element types the element's first pointer is the T).  Also generated for List(Bool), where
// the upgrade is not legal and every reader shows false.
func (g *gen) upgradedList(e *mtype, n, depth int) *aPtr {
	dw := 1 + g.r.Intn(2)
	pc := g.r.Intn(3)
	switch e.kind {
	case 'T', 'D', 'L', 'A':
		if g.r.Intn(5) != 0 {
			pc = 1 + g.r.Intn(2)
		}
		if g.r.Intn(3) == 0 {
			dw = 0
		}
	}
	if n == 0 && g.r.Bool() {
		n = 1
	}
	p := &aPtr{kind: 'C'}
	for i := 0; i < n; i++ {
		st := &aStruct{data: quietWords(g.dataBytes(dw * 8))}
		for k := 0; k < pc; k++ {
			q := &aPtr{kind: 'N'}
			if depth <= 3 {
				switch g.r.Intn(4) {
				case 0:
				case 1:
					q = g.randPtr(depth + 1)
				default:
					if e.kind == 'T' || e.kind == 'D' || e.kind == 'L' {
						q = g.ptrFor(e, depth+1)
					} else {
						q = g.randPtr(depth + 1)
					}
				}
			}
			st.ptrs = append(st.ptrs, q)
		}
		p.structs = append(p.structs, st)
	}
	return p
}

func (g *gen) ptrFor(mt *mtype, depth int) *aPtr {
	switch mt.kind {
	case 'T':
		if g.r.Intn(6) == 0 {
			return &aPtr{kind: 'B', bytes: g.bytesVal(4)} // maybe not NUL-terminated
		}
		return &aPtr{kind: 'B', bytes: append(g.bytesVal(6), 0)}
	case 'D':
		return &aPtr{kind: 'B', bytes: g.bytesVal(6)}
	case 'S':
		if mt.node == nil || depth > 3 {
			return &aPtr{kind: 'N'}
		}
		return &aPtr{kind: 'S', st: g.astruct(mt.node, depth)}
	case 'L':
		n := g.r.Intn(4)
		if depth > 3 {
			n = 0
		}
		e := mt.elem
		if e.kind != 'S' && g.r.Intn(10) < 3 {
			return g.upgradedList(e, n, depth)
		}
		switch e.kind {
		case 'b':
			p := &aPtr{kind: 'b', bits: []bool{}}
			for i := 0; i < n*3; i++ {
				p.bits = append(p.bits, g.r.Bool())
			}
			return p
		case 'i':
			if e.w == 8 {
				return &aPtr{kind: 'B', bytes: g.bytesVal(6)}
			}
			p := &aPtr{kind: 'P', w: e.w}
			for i := 0; i < n; i++ {
				x := g.scalar(e.w)
				if e.w == 32 {
					x = quiet32(x)
				}
				p.prims = append(p.prims, x)
			}
			return p
		case 'S':
			p := &aPtr{kind: 'C'}
			if e.node == nil {
				return p
			}
			dw, pc := g.sizes(e.node)
			for i := 0; i < n; i++ {
				p.structs = append(p.structs, g.astructSized(e.node, depth+1, dw, pc))
			}
			return p
		default:
			p := &aPtr{kind: 'L'}
			for i := 0; i < n; i++ {
				if g.r.Intn(5) == 0 {
					p.ptrs = append(p.ptrs, &aPtr{kind: 'N'})
				} else {
					p.ptrs = append(p.ptrs, g.ptrFor(e, depth+1))
				}
			}
			return p
		}
	case 'A':
		return g.randPtr(depth)
	}
	return &aPtr{kind: 'N'}
}
