package main

// Abstract struct/pointer trees (the model's strct/ptrval), their token syntax, building a
// real message from a tree with the low-level capnp API ("a message built by other means"),
// and exporting a real struct back to a tree.

import (
	"encoding/hex"
	"fmt"
	"strconv"
	"strings"

	capnp "capnproto.org/go/capnp/v3"
)

type aPtr struct {
	kind    byte // N B b P L C S K
	bytes   []byte
	bits    []bool
	w       int
	prims   []uint64
	ptrs    []*aPtr
	structs []*aStruct
	st      *aStruct
	cap     int
}

type aStruct struct {
	data []byte
	ptrs []*aPtr
}

func hx(b []byte) string {
	if len(b) == 0 {
		return "-"
	}
	return hex.EncodeToString(b)
}

func unhx(s string) []byte {
	if s == "-" {
		return []byte{}
	}
	b, err := hex.DecodeString(s)
	if err != nil {
		panic("bad hex " + s)
	}
	return b
}

func packBits(bits []bool) []byte {
	b := make([]byte, (len(bits)+7)/8)
	for i, x := range bits {
		if x {
			b[i/8] |= 1 << uint(i%8)
		}
	}
	return b
}

func (p *aPtr) write(sb *strings.Builder) {
	switch p.kind {
	case 'N':
		sb.WriteString(" N")
	case 'B':
		sb.WriteString(" B " + hx(p.bytes))
	case 'b':
		fmt.Fprintf(sb, " b %d %s", len(p.bits), hx(packBits(p.bits)))
	case 'P':
		fmt.Fprintf(sb, " P %d %d", p.w, len(p.prims))
		for _, x := range p.prims {
			fmt.Fprintf(sb, " %x", x)
		}
	case 'L':
		fmt.Fprintf(sb, " L %d", len(p.ptrs))
		for _, q := range p.ptrs {
			q.write(sb)
		}
	case 'C':
		fmt.Fprintf(sb, " C %d", len(p.structs))
		for _, s := range p.structs {
			s.write(sb)
		}
	case 'S':
		sb.WriteString(" S")
		p.st.write(sb)
	case 'K':
		fmt.Fprintf(sb, " K %d", p.cap)
	}
}

func (s *aStruct) write(sb *strings.Builder) {
	fmt.Fprintf(sb, " %s %d", hx(s.data), len(s.ptrs))
	for _, p := range s.ptrs {
		p.write(sb)
	}
}

func (s *aStruct) String() string {
	var sb strings.Builder
	s.write(&sb)
	return sb.String()[1:]
}

func (p *aPtr) String() string {
	var sb strings.Builder
	p.write(&sb)
	return sb.String()[1:]
}

// ---------------------------------------------------------------- tokens

type toks struct {
	t []string
	i int
}

func (t *toks) next() string {
	if t.i >= len(t.t) {
		panic("bad case: out of tokens")
	}
	s := t.t[t.i]
	t.i++
	return s
}

func (t *toks) int() int {
	n, err := strconv.Atoi(t.next())
	if err != nil {
		panic("bad case: int")
	}
	return n
}

func (t *toks) hex64() uint64 {
	s := t.next()
	if s == "-" {
		return 0
	}
	n, err := strconv.ParseUint(s, 16, 64)
	if err != nil {
		panic("bad case: hex")
	}
	return n
}

func parsePtr(t *toks) *aPtr {
	switch k := t.next(); k {
	case "N":
		return &aPtr{kind: 'N'}
	case "B":
		return &aPtr{kind: 'B', bytes: unhx(t.next())}
	case "b":
		n := t.int()
		by := unhx(t.next())
		p := &aPtr{kind: 'b', bits: make([]bool, n)}
		for i := range p.bits {
			p.bits[i] = by[i/8]&(1<<uint(i%8)) != 0
		}
		return p
	case "P":
		p := &aPtr{kind: 'P', w: t.int()}
		n := t.int()
		for i := 0; i < n; i++ {
			p.prims = append(p.prims, t.hex64())
		}
		return p
	case "L":
		p := &aPtr{kind: 'L'}
		n := t.int()
		for i := 0; i < n; i++ {
			p.ptrs = append(p.ptrs, parsePtr(t))
		}
		return p
	case "C":
		p := &aPtr{kind: 'C'}
		n := t.int()
		for i := 0; i < n; i++ {
			p.structs = append(p.structs, parseStruct(t))
		}
		return p
	case "S":
		return &aPtr{kind: 'S', st: parseStruct(t)}
	case "K":
		return &aPtr{kind: 'K', cap: t.int()}
	default:
		panic("bad case: ptr " + k)
	}
}

func parseStruct(t *toks) *aStruct {
	s := &aStruct{data: unhx(t.next())}
	n := t.int()
	for i := 0; i < n; i++ {
		s.ptrs = append(s.ptrs, parsePtr(t))
	}
	return s
}

// ---------------------------------------------------------------- build

func must(err error) {
	if err != nil {
		panic(err)
	}
}

func fillStruct(st capnp.Struct, a *aStruct) {
	for i, b := range a.data {
		st.SetUint8(capnp.DataOffset(i), b)
	}
	for i, p := range a.ptrs {
		must(st.SetPtr(uint16(i), buildPtr(st.Segment(), p)))
	}
}

func buildStruct(seg *capnp.Segment, a *aStruct) capnp.Struct {
	if len(a.data)%8 != 0 {
		panic("bad case: struct data size must be a multiple of 8")
	}
	st, err := capnp.NewStruct(seg, capnp.ObjectSize{DataSize: capnp.Size(len(a.data)), PointerCount: uint16(len(a.ptrs))})
	must(err)
	fillStruct(st, a)
	return st
}

func buildPtr(seg *capnp.Segment, p *aPtr) capnp.Ptr {
	switch p.kind {
	case 'N':
		return capnp.Ptr{}
	case 'B':
		l, err := capnp.NewData(seg, p.bytes)
		must(err)
		return l.ToPtr()
	case 'b':
		l, err := capnp.NewBitList(seg, int32(len(p.bits)))
		must(err)
		for i, b := range p.bits {
			l.Set(i, b)
		}
		return l.ToPtr()
	case 'P':
		n := int32(len(p.prims))
		switch p.w {
		case 0:
			return capnp.NewVoidList(seg, n).ToPtr()
		case 16:
			l, err := capnp.NewUInt16List(seg, n)
			must(err)
			for i, x := range p.prims {
				l.Set(i, uint16(x))
			}
			return l.ToPtr()
		case 32:
			l, err := capnp.NewUInt32List(seg, n)
			must(err)
			for i, x := range p.prims {
				l.Set(i, uint32(x))
			}
			return l.ToPtr()
		case 64:
			l, err := capnp.NewUInt64List(seg, n)
			must(err)
			for i, x := range p.prims {
				l.Set(i, x)
			}
			return l.ToPtr()
		}
		panic("bad case: prim width")
	case 'L':
		l, err := capnp.NewPointerList(seg, int32(len(p.ptrs)))
		must(err)
		for i, q := range p.ptrs {
			must(l.Set(i, buildPtr(seg, q)))
		}
		return l.ToPtr()
	case 'C':
		sz := capnp.ObjectSize{}
		if len(p.structs) > 0 {
			sz = capnp.ObjectSize{DataSize: capnp.Size(len(p.structs[0].data)), PointerCount: uint16(len(p.structs[0].ptrs))}
		}
		for _, s := range p.structs {
			if len(s.data) != int(sz.DataSize) || len(s.ptrs) != int(sz.PointerCount) || len(s.data)%8 != 0 {
				panic("bad case: composite list elements must have one word-aligned size")
			}
		}
		l, err := capnp.NewCompositeList(seg, sz, int32(len(p.structs)))
		must(err)
		for i, s := range p.structs {
			fillStruct(l.Struct(i), s)
		}
		return l.ToPtr()
	case 'S':
		return buildStruct(seg, p.st).ToPtr()
	case 'K':
		return capnp.NewInterface(seg, capnp.CapabilityID(p.cap)).ToPtr()
	}
	panic("bad kind")
}

// ---------------------------------------------------------------- export

func exportStructA(st capnp.Struct) *aStruct {
	a := &aStruct{}
	sz := st.Size()
	for i := 0; i < int(sz.DataSize); i++ {
		a.data = append(a.data, st.Uint8(capnp.DataOffset(i)))
	}
	for i := 0; i < int(sz.PointerCount); i++ {
		p, err := st.Ptr(uint16(i))
		must(err)
		a.ptrs = append(a.ptrs, exportPtrA(p))
	}
	return a
}

func exportPtrA(p capnp.Ptr) *aPtr {
	if !p.IsValid() {
		return &aPtr{kind: 'N'}
	}
	if s := p.Struct(); s.IsValid() {
		return &aPtr{kind: 'S', st: exportStructA(s)}
	}
	if i := p.Interface(); i.IsValid() {
		return &aPtr{kind: 'K', cap: int(i.Capability())}
	}
	l := p.List()
	if !l.IsValid() {
		panic("export: unknown pointer kind")
	}
	ds, pc, bit, comp := capnp.VerifPogsListInfo(l)
	n := l.Len()
	switch {
	case bit:
		a := &aPtr{kind: 'b'}
		for i := 0; i < n; i++ {
			a.bits = append(a.bits, capnp.BitList{List: l}.At(i))
		}
		return a
	case comp:
		a := &aPtr{kind: 'C'}
		for i := 0; i < n; i++ {
			a.structs = append(a.structs, exportStructA(l.Struct(i)))
		}
		return a
	case pc == 1 && ds == 0:
		a := &aPtr{kind: 'L'}
		for i := 0; i < n; i++ {
			q, err := capnp.PointerList{List: l}.At(i)
			must(err)
			a.ptrs = append(a.ptrs, exportPtrA(q))
		}
		return a
	case pc == 0 && ds == 1:
		a := &aPtr{kind: 'B', bytes: []byte{}}
		for i := 0; i < n; i++ {
			a.bytes = append(a.bytes, capnp.UInt8List{List: l}.At(i))
		}
		return a
	case pc == 0:
		a := &aPtr{kind: 'P', w: int(ds) * 8}
		for i := 0; i < n; i++ {
			var x uint64
			switch ds {
			case 2:
				x = uint64(capnp.UInt16List{List: l}.At(i))
			case 4:
				x = uint64(capnp.UInt32List{List: l}.At(i))
			case 8:
				x = capnp.UInt64List{List: l}.At(i)
			}
			a.prims = append(a.prims, x)
		}
		return a
	}
	panic(fmt.Sprintf("export: unsupported list layout %d/%d", ds, pc))
}

func exportPtr(p capnp.Ptr) string       { return exportPtrA(p).String() }
func exportStruct(s capnp.Struct) string { return exportStructA(s).String() }
