package main

// Schema loading and the harness's own, independent implementation of the documented
// Go-struct <-> schema field mapping rules of pogs (doc.go: name = Go field name with a
// lower-case first letter, `capnp:"name"`, `capnp:"-"`, Which, embedding with the
// encoding/json visibility rules).  The result ("mapped nodes") is exported to the model.

import (
	"fmt"
	"math"
	"reflect"
	"strings"

	capnp "capnproto.org/go/capnp/v3"
	"capnproto.org/go/capnp/v3/schemas"
	"capnproto.org/go/capnp/v3/std/capnp/schema"
)

var nodeCache = map[uint64]schema.Node{}

func findNode(id uint64) schema.Node {
	if n, ok := nodeCache[id]; ok {
		return n
	}
	data := schemas.Find(id)
	if data == nil {
		panic(fmt.Sprintf("no schema for %#x", id))
	}
	msg, err := capnp.Unmarshal(data)
	if err != nil {
		panic(err)
	}
	msg.TraverseLimit = 1 << 60
	req, err := schema.ReadRootCodeGeneratorRequest(msg)
	if err != nil {
		panic(err)
	}
	nodes, _ := req.Nodes()
	for i := 0; i < nodes.Len(); i++ {
		n := nodes.At(i)
		nodeCache[n.Id()] = n
	}
	return nodeCache[id]
}

type mtype struct {
	kind  byte // v b i T D L S I A
	w     int
	bytes bool
	elem  *mtype
	isptr bool
	node  *mnode
	tid   uint64 // struct type id
	f32   bool   // Float32 (see quiet32)
}

type mfield struct {
	name    string
	present bool
	path    []int
	dv      uint16
	isGroup bool
	off     uint32
	typ     *mtype
	group   *mnode
	dflt    string
}

type mnode struct {
	id        int
	goType    reflect.Type
	node      schema.Node
	hasDisc   bool
	discOff   uint32
	wk        byte // n w x
	fixed     uint16
	whichPath []int
	fields    []*mfield
	isGroup   bool
}

type mschema struct {
	name    string
	nodes   []*mnode
	byKey   map[string]*mnode
	root    *mnode
	genType reflect.Type
	notOK   bool // schema_ok is expected to be false (struct-typed default)
}

type cand struct {
	path   []int
	depth  int
	tagged bool
	ft     reflect.Type
}

func isStructOrPtr(t reflect.Type) bool {
	return t.Kind() == reflect.Struct || t.Kind() == reflect.Ptr && t.Elem().Kind() == reflect.Struct
}

func collect(t reflect.Type, hasDisc bool) (map[string][]cand, []cand) {
	fields := map[string][]cand{}
	var which []cand
	type qe struct {
		t     reflect.Type
		path  []int
		depth int
	}
	queue := []qe{{t, nil, 1}}
	for len(queue) > 0 {
		e := queue[0]
		queue = queue[1:]
		for i := 0; i < e.t.NumField(); i++ {
			f := e.t.Field(i)
			if f.PkgPath != "" && !f.Anonymous {
				continue
			}
			path := append(append([]int{}, e.path...), i)
			tag := f.Tag.Get("capnp")
			name := tag
			if k := strings.Index(tag, ","); k >= 0 {
				name = tag[:k]
			}
			if name == "-" {
				continue
			}
			if name == "" {
				if f.Anonymous && isStructOrPtr(f.Type) {
					et := f.Type
					if et.Kind() == reflect.Ptr {
						et = et.Elem()
					}
					queue = append(queue, qe{et, path, e.depth + 1})
					continue
				}
				if hasDisc && f.Name == "Which" {
					which = append(which, cand{path, e.depth, false, f.Type})
					continue
				}
				name = strings.ToLower(f.Name[:1]) + f.Name[1:]
			}
			fields[name] = append(fields[name], cand{path, e.depth, tag != "", f.Type})
		}
	}
	return fields, which
}

// resolve applies the visibility rules: least nested level; tagged beat untagged; exactly one.
func resolve(cs []cand) *cand {
	if len(cs) == 0 {
		return nil
	}
	min := cs[0].depth
	for _, c := range cs {
		if c.depth < min {
			min = c.depth
		}
	}
	var lvl, tagged []cand
	for _, c := range cs {
		if c.depth == min {
			lvl = append(lvl, c)
			if c.tagged {
				tagged = append(tagged, c)
			}
		}
	}
	if len(tagged) > 0 {
		lvl = tagged
	}
	if len(lvl) == 1 {
		return &lvl[0]
	}
	return nil
}

func (ms *mschema) mapNode(goType reflect.Type, id uint64) *mnode {
	if goType.Kind() == reflect.Ptr {
		goType = goType.Elem()
	}
	key := fmt.Sprintf("%v/%x", goType, id)
	if mn, ok := ms.byKey[key]; ok {
		return mn
	}
	n := findNode(id)
	if !n.IsValid() || n.Which() != schema.Node_Which_structNode {
		panic(fmt.Sprintf("node %#x is not a struct", id))
	}
	sn := n.StructNode()
	mn := &mnode{id: len(ms.nodes) + 1, goType: goType, node: n, isGroup: sn.IsGroup()}
	ms.nodes = append(ms.nodes, mn)
	ms.byKey[key] = mn
	mn.hasDisc = sn.DiscriminantCount() > 0
	mn.discOff = sn.DiscriminantOffset()
	cands, which := collect(goType, mn.hasDisc)
	fields, _ := sn.Fields()
	nUnion := 0
	for i := 0; i < fields.Len(); i++ {
		f := fields.At(i)
		name, _ := f.Name()
		mf := &mfield{name: name, dv: f.DiscriminantValue()}
		c := resolve(cands[name])
		delete(cands, name)
		if c != nil {
			mf.present = true
			mf.path = c.path
			if mf.dv != schema.Field_noDiscriminant {
				nUnion++
				mn.fixed = mf.dv
			}
		}
		switch f.Which() {
		case schema.Field_Which_group:
			mf.isGroup = true
			if c != nil {
				mf.group = ms.mapNode(c.ft, f.Group().TypeId())
			}
		case schema.Field_Which_slot:
			mf.off = f.Slot().Offset()
			t, _ := f.Slot().Type()
			var gt reflect.Type
			if c != nil {
				gt = c.ft
			}
			mf.typ = ms.mapType(gt, t)
			mf.dflt = exportDefault(f, t)
		}
		mn.fields = append(mn.fields, mf)
	}
	if len(cands) > 0 {
		panic(fmt.Sprintf("%v has fields not in schema node %#x: %v", goType, id, cands))
	}
	mn.wk = 'n'
	if mn.hasDisc {
		if len(which) == 1 {
			mn.wk = 'w'
			mn.whichPath = which[0].path
		} else if nUnion == 1 {
			mn.wk = 'x'
		} else if nUnion > 1 {
			panic(fmt.Sprintf("%v: several union members but no Which", goType))
		}
	}
	return mn
}

var intW = map[schema.Type_Which]int{
	schema.Type_Which_int8: 8, schema.Type_Which_uint8: 8,
	schema.Type_Which_int16: 16, schema.Type_Which_uint16: 16, schema.Type_Which_enum: 16,
	schema.Type_Which_int32: 32, schema.Type_Which_uint32: 32, schema.Type_Which_float32: 32,
	schema.Type_Which_int64: 64, schema.Type_Which_uint64: 64, schema.Type_Which_float64: 64,
}

// mapType: gt == nil for fields that have no Go counterpart (their Go-side flavour is irrelevant).
func (ms *mschema) mapType(gt reflect.Type, t schema.Type) *mtype {
	if w, ok := intW[t.Which()]; ok {
		return &mtype{kind: 'i', w: w, f32: t.Which() == schema.Type_Which_float32}
	}
	switch t.Which() {
	case schema.Type_Which_void:
		return &mtype{kind: 'v'}
	case schema.Type_Which_bool:
		return &mtype{kind: 'b'}
	case schema.Type_Which_text:
		return &mtype{kind: 'T', bytes: gt != nil && gt.Kind() == reflect.Slice}
	case schema.Type_Which_data:
		return &mtype{kind: 'D'}
	case schema.Type_Which_list:
		e, _ := t.List().ElementType()
		var et reflect.Type
		if gt != nil {
			et = gt.Elem()
		}
		return &mtype{kind: 'L', elem: ms.mapType(et, e)}
	case schema.Type_Which_structType:
		mt := &mtype{kind: 'S', tid: t.StructType().TypeId()}
		if gt != nil {
			mt.isptr = gt.Kind() == reflect.Ptr
			mt.node = ms.mapNode(gt, mt.tid)
		}
		return mt
	case schema.Type_Which_interface:
		return &mtype{kind: 'I'}
	case schema.Type_Which_anyPointer:
		return &mtype{kind: 'A'}
	}
	panic("unknown type")
}

func exportDefault(f schema.Field, t schema.Type) string {
	dv, _ := f.Slot().DefaultValue()
	if !dv.IsValid() {
		return "-"
	}
	if int(dv.Which()) != int(t.Which()) {
		return "!"
	}
	switch t.Which() {
	case schema.Type_Which_void:
		return "-"
	case schema.Type_Which_bool:
		if dv.Bool() {
			return "z 1"
		}
		return "z 0"
	case schema.Type_Which_int8:
		return fmt.Sprintf("z %x", uint8(dv.Int8()))
	case schema.Type_Which_int16:
		return fmt.Sprintf("z %x", uint16(dv.Int16()))
	case schema.Type_Which_int32:
		return fmt.Sprintf("z %x", uint32(dv.Int32()))
	case schema.Type_Which_int64:
		return fmt.Sprintf("z %x", uint64(dv.Int64()))
	case schema.Type_Which_uint8:
		return fmt.Sprintf("z %x", dv.Uint8())
	case schema.Type_Which_uint16:
		return fmt.Sprintf("z %x", dv.Uint16())
	case schema.Type_Which_enum:
		return fmt.Sprintf("z %x", dv.Enum())
	case schema.Type_Which_uint32:
		return fmt.Sprintf("z %x", dv.Uint32())
	case schema.Type_Which_uint64:
		return fmt.Sprintf("z %x", dv.Uint64())
	case schema.Type_Which_float32:
		return fmt.Sprintf("z %x", math.Float32bits(dv.Float32()))
	case schema.Type_Which_float64:
		return fmt.Sprintf("z %x", math.Float64bits(dv.Float64()))
	default:
		p, err := dv.Struct.Ptr(0)
		if err != nil {
			panic(err)
		}
		return "p " + exportPtr(p)
	}
}

func (t *mtype) String() string {
	switch t.kind {
	case 'i':
		return fmt.Sprintf("i%d", t.w)
	case 'T':
		if t.bytes {
			return "T1"
		}
		return "T0"
	case 'L':
		return "L " + t.elem.String()
	case 'S':
		id := 0
		if t.node != nil {
			id = t.node.id
		}
		if t.isptr {
			return fmt.Sprintf("S1 %d", id)
		}
		return fmt.Sprintf("S0 %d", id)
	}
	return string(t.kind)
}

func dvStr(dv uint16) string {
	if dv == schema.Field_noDiscriminant {
		return "-"
	}
	return fmt.Sprintf("%x", dv)
}

func b01(b bool) string {
	if b {
		return "1"
	}
	return "0"
}

// defLine is the "def" case: the mapped schema for the model.
func (ms *mschema) defLine() string {
	var sb strings.Builder
	fmt.Fprintf(&sb, "def %s %d", ms.name, len(ms.nodes))
	for _, mn := range ms.nodes {
		sn := mn.node.StructNode()
		disc := "-"
		if mn.hasDisc {
			disc = fmt.Sprint(mn.discOff)
		}
		wk := string(mn.wk)
		if mn.wk == 'x' {
			wk = fmt.Sprintf("x %x", mn.fixed)
		}
		fmt.Fprintf(&sb, " %d %d %d %s %s %d", mn.id, sn.DataWordCount(), sn.PointerCount(), disc, wk, len(mn.fields))
		for _, f := range mn.fields {
			if f.isGroup {
				gid := 0
				if f.group != nil {
					gid = f.group.id
				}
				fmt.Fprintf(&sb, " g %s %s %d", b01(f.present), dvStr(f.dv), gid)
			} else {
				fmt.Fprintf(&sb, " s %s %s %d %s %s", b01(f.present), dvStr(f.dv), f.off, f.typ, f.dflt)
			}
		}
	}
	return sb.String()
}

func newSchema(name string, goVal interface{}, typeID uint64, genType reflect.Type) *mschema {
	ms := &mschema{name: name, byKey: map[string]*mnode{}, genType: genType}
	ms.root = ms.mapNode(reflect.TypeOf(goVal), typeID)
	return ms
}
