package main

// The Go struct types the harness maps to schemas (pogs side), covering: every field kind of
// aircraftlib.Z (union with Which, group, nested lists, recursion), struct values vs struct
// pointers, []byte Text, renamed (`capnp:"name"`) and omitted (`capnp:"-"`) fields, embedded
// structs (by value, by pointer, tagged anonymous = named), a fixed discriminant (exactly one
// union member mapped), schema defaults (Defaults), versioned struct lists, rpc.capnp messages.

import (
	"reflect"

	capnp "capnproto.org/go/capnp/v3"
	"capnproto.org/go/capnp/v3/pogs/verifair"
	"capnproto.org/go/capnp/v3/std/capnp/rpc"
)

type Zdate struct {
	Year  int16
	Month uint8
	Day   uint8
}

type Zdata struct {
	Data []byte
}

type PlaneBase struct {
	Name     string
	Homes    []uint16
	Rating   int64
	CanFly   bool
	Capacity int64
	MaxSpeed float64
}

type B737 struct{ Base *PlaneBase }
type A320 struct{ Base PlaneBase }

// F16 embeds PlaneBase under the schema name "base" (a tagged anonymous field is a named field).
type F16 struct {
	PlaneBase `capnp:"base"`
}

type Aircraft struct {
	Which uint16
	B737  *B737
	A320  *A320
	F16   *F16
}

type Regression struct {
	Base   PlaneBase
	B0     float64
	Beta   []float64
	Planes []Aircraft
	Ymu    float64
	Ysd    float64
}

type ZGroup struct {
	First  uint64
	Second uint64
}

type Z struct {
	Which uint16

	Zz *Z

	F64 float64
	F32 float32

	I64 int64
	I32 int32
	I16 int16
	I8  int8

	U64 uint64
	U32 uint32
	U16 uint16
	U8  uint8

	Bool bool
	Text string
	Blob []byte

	F64vec []float64
	F32vec []float32

	I64vec []int64
	I32vec []int32
	I16vec []int16
	I8vec  []int8

	U64vec []uint64
	U32vec []uint32
	U16vec []uint16
	U8vec  []uint8

	Boolvec []bool
	Datavec [][]byte
	Textvec []string

	Zvec    []*Z
	Zvecvec [][]*Z

	Zdate *Zdate
	Zdata *Zdata

	Aircraftvec []Aircraft
	Aircraft    *Aircraft
	Regression  *Regression
	Planebase   *PlaneBase
	Airport     uint16
	B737        *B737
	A320        *A320
	F16         *F16
	Zdatevec    []Zdate
	Zdatavec    []*Zdata

	Grp *ZGroup

	AnyPtr capnp.Ptr
}

// StructZ: struct values instead of pointers, group by value.
type StructZ struct {
	Which     uint16
	Zvec      []Z
	Planebase PlaneBase
	Zdate     Zdate
	Grp       ZGroup
	Zvecvec   [][]Z
}

// BytesZ: Text as []byte.
type BytesZ struct {
	Which   uint16
	Text    []byte
	Textvec [][]byte
	Blob    []byte
}

// TagZ: renamed and omitted fields; the Go field U8 is mapped to the schema field "bool".
type TagZ struct {
	Which   uint16
	Float64 float64 `capnp:"f64"`
	I64     int64   `capnp:"-"`
	U8      bool    `capnp:"bool"`
	Str     string  `capnp:"text"`
	Extra   int     `capnp:"-"`
}

// ZF64 maps exactly one union member: the discriminant is fixed to f64.
type ZF64 struct {
	F64 float64
}

// ZText: fixed discriminant on a pointer member.
type ZText struct {
	Words string `capnp:"text"`
}

// one list member each (fixed discriminant): the list fields of every element width are live in
// every case, so that foreign encodings of them (upgraded composite lists) are exercised
type ZU8vec struct{ U8vec []uint8 }
type ZI8vec struct{ I8vec []int8 }
type ZI32vec struct{ I32vec []int32 }
type ZU64vec struct{ U64vec []uint64 }
type ZDatavec struct{ Datavec [][]byte }
type ZBoolvec struct{ Boolvec []bool }

// embedding
type ZNums struct {
	I64 int64
	U16 uint16
	F32 float32
}
type ZStrs struct {
	Text string
	Blob []byte
	// shadowed by EmbedZ.I64 one level up
	I64 int64
}
type EmbedZ struct {
	Which uint16
	ZNums
	*ZStrs
	I64 int64 // wins over ZNums.I64 / ZStrs.I64 (least nested)
}

type VerVal struct{ Val int16 }
type VerTwoData struct {
	*VerVal
	Duo int64
}
type VerOneData struct{ VerVal }

type VerTwoDataTwoPtr struct {
	Val  int16
	Duo  int64
	Ptr1 *VerOneData
	Ptr2 VerOneData
}
type VerTwoTwoPlus struct {
	Val  int16
	Duo  int64
	Ptr1 *VerTwoDataTwoPtr
	Ptr2 *VerTwoDataTwoPtr
	Tre  int64
	Lst3 []int64
}
type HoldsVerTwoTwoPlus struct{ Mylist []VerTwoTwoPlus }
type HoldsVerTwoDataList struct{ Mylist []*VerTwoData }

type Defaults struct {
	Text  string
	Data  []byte
	Float float32
	Int   int32
	Uint  uint32
}
type DefaultsB struct {
	Text []byte
	Data []byte
	Int  int32
}

type Counter struct {
	Size     int64
	Words    string
	Wordlist []string
	Bitlist  []bool
}
type Bag struct{ Counter *Counter }

type HoldsText struct {
	Txt    string
	Lst    []string
	Lstlst [][]string
}
type Nester1 struct{ Strs []string }
type RWTest struct{ NestMatrix [][]Nester1 }

type VoidUnion struct{ Which uint16 }

type StackingA struct {
	Num int32
	B   *StackingB
}
type StackingB struct{ Num int32 }
type StackingRoot struct {
	A            *StackingA
	AWithDefault *StackingA
}

// rpc.capnp
type RPCMessage struct {
	Which         uint16
	Unimplemented *RPCMessage
	Abort         *RPCException
	Bootstrap     *RPCBootstrap
	Call          *RPCCall
	Return        *RPCReturn
	Finish        *RPCFinish
	Resolve       *RPCResolve
	Release       *RPCRelease
	Disembargo    *RPCDisembargo
}
type RPCException struct {
	Reason string
	Type   uint16
}
type RPCBootstrap struct {
	QuestionID uint32 `capnp:"questionId"`
}
type RPCMessageTarget struct {
	Which          uint16
	ImportedCap    uint32
	PromisedAnswer *RPCPromisedAnswer
}
type RPCPromisedAnswer struct {
	QuestionID uint32 `capnp:"questionId"`
	Transform  []RPCOp
}
type RPCOp struct {
	Which           uint16
	GetPointerField uint16
}
type RPCSendResultsTo struct {
	Which uint16
}
type RPCCall struct {
	QuestionID              uint32 `capnp:"questionId"`
	Target                  RPCMessageTarget
	InterfaceID             uint64 `capnp:"interfaceId"`
	MethodID                uint16 `capnp:"methodId"`
	AllowThirdPartyTailCall bool
	Params                  RPCPayload
	SendResultsTo           RPCSendResultsTo
}
type RPCPayload struct {
	Content  capnp.Ptr
	CapTable []RPCCapDescriptor
}
type RPCCapDescriptor struct {
	Which          uint16
	SenderHosted   uint32
	SenderPromise  uint32
	ReceiverHosted uint32
	ReceiverAnswer *RPCPromisedAnswer
}
type RPCReturn struct {
	AnswerID              uint32 `capnp:"answerId"`
	ReleaseParamCaps      bool
	Which                 uint16
	Results               *RPCPayload
	Exception             *RPCException
	TakeFromOtherQuestion uint32
}
type RPCFinish struct {
	QuestionID        uint32 `capnp:"questionId"`
	ReleaseResultCaps bool
}
type RPCResolve struct {
	PromiseID uint32 `capnp:"promiseId"`
	Which     uint16
	Cap       *RPCCapDescriptor
	Exception *RPCException
}
type RPCRelease struct {
	ID             uint32 `capnp:"id"`
	ReferenceCount uint32
}
type RPCDisembargoContext struct {
	Which            uint16
	SenderLoopback   uint32
	ReceiverLoopback uint32
}
type RPCDisembargo struct {
	Target  RPCMessageTarget
	Context RPCDisembargoContext
}

// Deep / ambiguous embeddings on VerTwoData (val, duo): the least nested level decides; on that
// level tagged beat untagged; exactly one candidate must remain, else the field is unmapped.
// Declaration-order variants of every shape (the mapping must not depend on the order).
type EShallow struct{ Val int16 }
type ETagA struct {
	A int16 `capnp:"val"`
}
type ETagB struct {
	B int16 `capnp:"val"`
}
type EDeepTags struct { // tag collision one level below EShallow
	ETagA
	ETagB
}
type EUntA struct{ Val int16 }
type EUntB struct{ Val int16 }
type EDeepUnt struct { // untagged duplicates
	EUntA
	EUntB
}
type EDuo struct{ Duo int64 }
type EDuoTag struct {
	D int64 `capnp:"duo"`
}

type EmbShallowFirst struct { // val = EShallow.Val (depth 2), deeper collision irrelevant
	EShallow
	EDeepTags
	EDuo
}
type EmbDeepFirst struct {
	EDeepTags
	EDuo
	EShallow
}
type EmbShallowFirstUnt struct { // same with untagged duplicates below
	EShallow
	EDeepUnt
}
type EmbDeepFirstUnt struct {
	EDeepUnt
	EShallow
}
type EmbCollision struct { // val: two tagged on the least nested level -> unmapped; duo: tagged beats untagged
	ETagA
	ETagB
	EDuo
	EDuoTag
}
type EmbCollisionRev struct {
	EDuoTag
	EDuo
	ETagB
	ETagA
}
type EmbTagVsUnt struct { // val: tagged ETagA.A beats untagged EShallow.Val on the same level
	EShallow
	ETagA
	Duo int64
}
type EmbTagVsUntRev struct {
	Duo int64
	ETagA
	EShallow
}
type EMid struct { // three levels: EMid.EShallow.Val at depth 3
	EShallow
}
type EDeeper struct { // collision at depth 4
	EDeepTags
}
type EmbThree struct { // val = EMid.EShallow.Val (depth 3) although a depth-4 collision is declared later
	EMid
	EDeeper
}
type EmbThreeRev struct {
	EDeeper
	EMid
}
type EmbPtrs struct { // pointer embeddings, collision below a pointer
	*EShallow
	*EDeepTags
	*EDuo
}
type EmbPtrsRev struct {
	*EDuo
	*EDeepTags
	*EShallow
}
type EmbTopWins struct { // a top-level field shadows everything embedded
	EDeepTags
	EShallow
	Val int16
	Duo int64
}
type EmbUntThenDeepTag struct { // untagged pair on level 2 (unmapped), single tagged one level deeper must NOT win
	EUntA
	EUntB
	EMidTag
}
type EMidTag struct{ ETagA }
type EmbUntThenDeepTagRev struct {
	EMidTag
	EUntB
	EUntA
}

type EUntC struct{ Val int16 }
type EmbThreeUnt struct { // three untagged candidates on one level: all ignored
	EUntA
	EUntB
	EUntC
	Duo int64
}
type EmbThreeUntTag struct { // ... unless exactly one tagged candidate is on that level
	EUntA
	EUntB
	ETagA
	EUntC
}

// Deep embedding chains with several mapped sibling fields in the innermost struct (field paths
// of length 4, 5 and 6; by value and by pointer; 2 and 3 siblings of the same Go type).
type N3Leaf struct { // PlaneBase: rating, capacity :Int64, maxSpeed :Float64
	Rating   int64
	Capacity int64
	MaxSpeed float64
}
type N3L2 struct{ N3Leaf }
type N3L1 struct {
	N3L2
	CanFly bool
}
type Nest3 struct { // Nest3.N3L1.N3L2.N3Leaf.{Rating,Capacity,MaxSpeed}: paths of length 4
	N3L1
	Name string
}
type N3pL2 struct{ *N3Leaf }
type N3pL1 struct{ *N3pL2 }
type Nest3Ptr struct {
	*N3pL1
	Homes []uint16
}
type N4L0 struct{ N3L1 }
type Nest4 struct{ N4L0 } // paths of length 5
type N5L0 struct{ N4L0 }
type Nest5 struct { // paths of length 6
	N5L0
	Name string
}
type NDLeaf struct { // Zdate: month, day :UInt8
	Month uint8
	Day   uint8
}
type NDL2 struct {
	NDLeaf
	Year int16
}
type NDL1 struct{ *NDL2 }
type NestDate struct{ NDL1 } // NestDate.NDL1.NDL2.NDLeaf.{Month,Day}: length 4 below a pointer; Year length 3
type NRLeaf struct {         // Regression: b0, ymu, ysd :Float64, beta :List(Float64)
	B0   float64
	Ymu  float64
	Ysd  float64
	Beta []float64
}
type NRL2 struct{ NRLeaf }
type NRL1 struct{ NRL2 }
type NestReg struct {
	NRL1
	Base PlaneBase
}

func airID(name string) uint64 {
	for id, t := range verifair.GenTypes {
		if t.Name() == name {
			return id
		}
	}
	panic("no aircraftlib type " + name)
}

func allSchemas() []*mschema {
	air := func(name string, goVal interface{}, gen string) *mschema {
		id := airID(gen)
		return newSchema(name, goVal, id, verifair.GenTypes[id])
	}
	r := []*mschema{
		air("Z", Z{}, "Z"),
		air("StructZ", StructZ{}, "Z"),
		air("BytesZ", BytesZ{}, "Z"),
		air("TagZ", TagZ{}, "Z"),
		air("ZF64", ZF64{}, "Z"),
		air("ZText", ZText{}, "Z"),
		air("EmbedZ", EmbedZ{}, "Z"),
		air("ZU8vec", ZU8vec{}, "Z"),
		air("ZI8vec", ZI8vec{}, "Z"),
		air("ZI32vec", ZI32vec{}, "Z"),
		air("ZU64vec", ZU64vec{}, "Z"),
		air("ZDatavec", ZDatavec{}, "Z"),
		air("ZBoolvec", ZBoolvec{}, "Z"),
		air("Zdate", Zdate{}, "Zdate"),
		air("PlaneBase", PlaneBase{}, "PlaneBase"),
		air("Regression", Regression{}, "Regression"),
		air("Aircraft", Aircraft{}, "Aircraft"),
		air("VerTwoData", VerTwoData{}, "VerTwoData"),
		air("HoldsVerTwoTwoPlus", HoldsVerTwoTwoPlus{}, "HoldsVerTwoTwoPlus"),
		air("HoldsVerTwoDataList", HoldsVerTwoDataList{}, "HoldsVerTwoDataList"),
		air("Defaults", Defaults{}, "Defaults"),
		air("DefaultsB", DefaultsB{}, "Defaults"),
		air("Bag", Bag{}, "Bag"),
		air("HoldsText", HoldsText{}, "HoldsText"),
		air("RWTest", RWTest{}, "RWTestCapn"),
		air("VoidUnion", VoidUnion{}, "VoidUnion"),
		air("StackingRoot", StackingRoot{}, "StackingRoot"),
		newSchema("RPCMessage", RPCMessage{}, rpc.Message_TypeID, reflect.TypeOf(rpc.Message{})),
		// default-true Bool fields (releaseResultCaps, releaseParamCaps) as roots, so that they are
		// inserted into pre-populated structs
		newSchema("RPCFinish", RPCFinish{}, rpc.Finish_TypeID, reflect.TypeOf(rpc.Finish{})),
		newSchema("RPCReturn", RPCReturn{}, rpc.Return_TypeID, reflect.TypeOf(rpc.Return{})),
		air("EmbShallowFirst", EmbShallowFirst{}, "VerTwoData"),
		air("EmbDeepFirst", EmbDeepFirst{}, "VerTwoData"),
		air("EmbShallowFirstUnt", EmbShallowFirstUnt{}, "VerTwoData"),
		air("EmbDeepFirstUnt", EmbDeepFirstUnt{}, "VerTwoData"),
		air("EmbCollision", EmbCollision{}, "VerTwoData"),
		air("EmbCollisionRev", EmbCollisionRev{}, "VerTwoData"),
		air("EmbTagVsUnt", EmbTagVsUnt{}, "VerTwoData"),
		air("EmbTagVsUntRev", EmbTagVsUntRev{}, "VerTwoData"),
		air("EmbThree", EmbThree{}, "VerTwoData"),
		air("EmbThreeRev", EmbThreeRev{}, "VerTwoData"),
		air("EmbPtrs", EmbPtrs{}, "VerTwoData"),
		air("EmbPtrsRev", EmbPtrsRev{}, "VerTwoData"),
		air("EmbTopWins", EmbTopWins{}, "VerTwoData"),
		air("EmbUntThenDeepTag", EmbUntThenDeepTag{}, "VerTwoData"),
		air("EmbUntThenDeepTagRev", EmbUntThenDeepTagRev{}, "VerTwoData"),
		air("Nest3", Nest3{}, "PlaneBase"),
		air("Nest3Ptr", Nest3Ptr{}, "PlaneBase"),
		air("Nest4", Nest4{}, "PlaneBase"),
		air("Nest5", Nest5{}, "PlaneBase"),
		air("NestDate", NestDate{}, "Zdate"),
		air("NestReg", NestReg{}, "Regression"),
		air("EmbThreeUnt", EmbThreeUnt{}, "VerTwoData"),
		air("EmbThreeUntTag", EmbThreeUntTag{}, "VerTwoData"),
	}
	for _, ms := range r {
		if ms.name == "StackingRoot" {
			ms.notOK = true // aWithDefault has a struct-typed default: outside the round-trip theorem
		}
	}
	return r
}
