package main

// Correspondence harness for C19 (pogs): see docs/C19.md.
//   def <name> <mapped schema>                 impl: "def true" (the layout check of the model must accept it)
//   ins <name> <id> <dbytes> <pcount> <gval>   pogs.Insert into a zeroed struct of that size -> resulting struct tree
//   rt  <name> <id> <gval>                     pogs.Insert then pogs.Extract -> extracted value (+ Go-side comparison with the input)
//   insp <name> <id> <strct> <gval>            message built from the tree, then pogs.Insert over it -> resulting struct tree
//   rt2 <name> <id> <gval> <gval>              two pogs.Insert into one struct, then pogs.Extract
//   hostile <name> <arena> <T> <D> <segs>      pogs.Extract from a hostile message: ok/err/PANIC/HANG, allocation vs budget (hostile.go)
//   extf <name> <id> <k> <strct>               like ext, the message built on a multi-segment arena with tiny segments (far pointers)
//   ext2 <name> <id> <strctA> <strctB>         Extract A then B into one destination: = fresh extraction of B, A's slices intact
//   ext <name> <id> <strct>                    message built from the tree -> pogs.Extract (+ Go-side comparison with the generated getters)
//   gen <name> <id> <strct>                    message built from the tree -> generated getters

import (
	"fmt"
	"reflect"
	"strings"

	capnp "capnproto.org/go/capnp/v3"
	"capnproto.org/go/capnp/v3/pogs"
	. "verifh/hc"
)

type bug string

func main() { Main(runC19) }

var schemaByName = map[string]*mschema{}

// number of extf messages that really span several segments (far pointers)
var farMultiSeg int

func nodeOf(ms *mschema, id int) *mnode {
	if id < 1 || id > len(ms.nodes) || ms.nodes[id-1].isGroup {
		panic("bad case: node id")
	}
	return ms.nodes[id-1]
}

// farSeg: a multi-segment arena with small pre-sized segments (capacities derived from k): the
// struct tree built in it is connected by far and double-far pointers.
func farSeg(k int) *capnp.Segment {
	n := 1 + k%6
	bufs := make([][]byte, n)
	for i := range bufs {
		bufs[i] = make([]byte, 0, 8*(1+(k*7+i*5)%12))
	}
	// (capnp.NewMessage refuses an arena that already has several, empty, segments)
	msg := &capnp.Message{Arena: capnp.MultiSegment(bufs)}
	seg, err := msg.Segment(0)
	must(err)
	return seg
}

func newSeg() *capnp.Segment {
	_, seg, err := capnp.NewMessage(capnp.MultiSegment(nil))
	must(err)
	return seg
}

func doInsert(mn *mnode, st capnp.Struct, v reflect.Value) (res string) {
	defer func() {
		if e := recover(); e != nil {
			res = "panic"
		}
	}()
	if err := pogs.Insert(mn.node.Id(), st, v.Interface()); err != nil {
		return "err"
	}
	return "ok"
}

func doExtract(mn *mnode, st capnp.Struct) (res string, v reflect.Value) {
	v = reflect.New(mn.goType)
	defer func() {
		if e := recover(); e != nil {
			res = "panic"
		}
	}()
	if err := pogs.Extract(v.Interface(), mn.node.Id(), st); err != nil {
		return "err", v
	}
	return "ok", v
}

func safeExtract(mn *mnode, v reflect.Value, st capnp.Struct) (res string) {
	defer func() {
		if e := recover(); e != nil {
			res = "panic"
		}
	}()
	if err := pogs.Extract(v.Interface(), mn.node.Id(), st); err != nil {
		return "err"
	}
	return "ok"
}

func parseValue(t *toks, mn *mnode) reflect.Value {
	v := reflect.New(mn.goType)
	if k := t.next(); k != "s" {
		panic("bad case: root value must be a struct")
	}
	parseGStruct(t, mn, v.Elem())
	return v
}

func runCase(line string) (kind, impl, class string, nontrivial bool) {
	f := strings.Fields(line)
	t := &toks{t: f, i: 1}
	kind = f[0]
	if kind == "def" {
		ms := schemaByName[f[1]]
		if ms == nil {
			panic("bad case: unknown schema")
		}
		if ms.notOK {
			return kind, "def false", "def", false
		}
		return kind, "def true", "def", false
	}
	if kind == "hostile" {
		hms, m := parseHostile(f)
		impl, class := runHostile(hms, m)
		return kind, impl, hms.name + "/" + class, true
	}
	ms := schemaByName[t.next()]
	if ms == nil {
		panic("bad case: unknown schema " + f[1])
	}
	mn := nodeOf(ms, t.int())
	switch kind {
	case "ins":
		db, pc := t.int(), t.int()
		v := parseValue(t, mn)
		st, err := capnp.NewStruct(newSeg(), capnp.ObjectSize{DataSize: capnp.Size(db), PointerCount: uint16(pc)})
		must(err)
		r := doInsert(mn, st, v)
		if r == "ok" {
			r += " " + exportStruct(st)
		}
		return kind, r, ms.name + "/" + Cls(r), true
	case "rt":
		v := parseValue(t, mn)
		sn := mn.node.StructNode()
		st, err := capnp.NewStruct(newSeg(), capnp.ObjectSize{DataSize: capnp.Size(sn.DataWordCount()) * 8, PointerCount: sn.PointerCount()})
		must(err)
		r := doInsert(mn, st, v)
		if r != "ok" {
			return kind, r, ms.name + "/" + r, true
		}
		r, out := doExtract(mn, st)
		if r != "ok" {
			return kind, r, ms.name + "/x" + r, true
		}
		os, inact := gvalOut(mn, out.Elem())
		is, _ := gvalOut(mn, v.Elem())
		r = "ok " + os
		// the property itself, on the implementation: same value modulo nil/empty slices
		if canonNil(os) != canonNil(is) {
			r += " RTDIFF want " + is
		}
		if inact {
			r += " INACTIVE-WRITTEN"
		}
		return kind, r, ms.name + "/ok", true
	case "insp":
		// Insert over a pre-populated struct (built by other means: random prior contents)
		a := parseStruct(t)
		v := parseValue(t, mn)
		st := buildStruct(newSeg(), a)
		r := doInsert(mn, st, v)
		if r != "ok" {
			return kind, r, ms.name + "/" + r, true
		}
		r += " " + exportStruct(st)
		if xr, out := doExtract(mn, st); xr == "ok" {
			os, _ := gvalOut(mn, out.Elem())
			is, _ := gvalOut(mn, v.Elem())
			if canonNil(os) != canonNil(is) {
				r += " RTDIFF want " + is + " got " + os
			}
		} else {
			r += " RTDIFF extract-" + xr
		}
		return kind, r, ms.name + "/ok", true
	case "rt2":
		// two Inserts into the same struct, then Extract: the second value must come back
		v1 := parseValue(t, mn)
		v2 := parseValue(t, mn)
		sn := mn.node.StructNode()
		st, err := capnp.NewStruct(newSeg(), capnp.ObjectSize{DataSize: capnp.Size(sn.DataWordCount()) * 8, PointerCount: sn.PointerCount()})
		must(err)
		if r := doInsert(mn, st, v1); r != "ok" {
			return kind, r + "1", ms.name + "/" + r + "1", true
		}
		if r := doInsert(mn, st, v2); r != "ok" {
			return kind, r, ms.name + "/" + r, true
		}
		r, out := doExtract(mn, st)
		if r != "ok" {
			return kind, r, ms.name + "/x" + r, true
		}
		os, inact := gvalOut(mn, out.Elem())
		is, _ := gvalOut(mn, v2.Elem())
		r = "ok " + os
		if canonNil(os) != canonNil(is) {
			r += " RTDIFF want " + is
		}
		if inact {
			r += " INACTIVE-WRITTEN"
		}
		return kind, r, ms.name + "/ok", true
	case "ext2":
		// two Extracts into the SAME destination: the result must be the one of a fresh extraction
		// of the second message (list elements freshly zeroed: no stale union members), and the
		// slices of the first result, kept by the caller, must stay intact
		a := parseStruct(t)
		b := parseStruct(t)
		stA := buildStruct(newSeg(), a)
		stB := buildStruct(newSeg(), b)
		v := reflect.New(mn.goType)
		if err := safeExtract(mn, v, stA); err != "ok" {
			return kind, err + "1", ms.name + "/" + err + "1", true
		}
		first := reflect.New(mn.goType).Elem()
		first.Set(v.Elem()) // the caller keeps the value (shares the slices' backing arrays)
		snap := rootLists(mn, first)
		r := safeExtract(mn, v, stB)
		if r != "ok" {
			return kind, r, ms.name + "/" + r, true
		}
		g := &gprinter{}
		g.gstruct(mn, v.Elem())
		r = "ok" + g.sb.String()
		if fr, fresh := doExtract(mn, stB); fr == "ok" {
			if fs, _ := gvalOut(mn, fresh.Elem()); "ok "+fs != r {
				r += " REUSE-DIFF fresh " + Trunc(fs, 300)
			}
		}
		if g.inactiveNonZeroInList {
			r += " INACTIVE-WRITTEN"
		}
		if rootLists(mn, first) != snap {
			r += " ALIAS-CLOBBERED was" + Trunc(snap, 300)
		}
		return kind, r, ms.name + "/ok", true
	case "ext", "gen", "extf":
		seg := newSeg()
		if kind == "extf" {
			seg = farSeg(t.int())
		}
		a := parseStruct(t)
		st := buildStruct(seg, a)
		if kind == "extf" && seg.Message().NumSegments() > 1 {
			farMultiSeg++
		}
		if back := exportStruct(st); back != a.String() {
			panic(bug("builder/exporter disagree: " + back + " vs " + a.String()))
		}
		g := genRead(mn, st)
		if kind == "gen" {
			return kind, g, ms.name + "/" + Cls(g), true
		}
		r, out := doExtract(mn, st)
		if r == "ok" {
			os, inact := gvalOut(mn, out.Elem())
			r += " " + os
			if inact {
				r += " INACTIVE-WRITTEN"
			}
			if unmappedNonZero(mn, out.Elem()) {
				r += " UNMAPPED-WRITTEN"
			}
		}
		// the property itself, on the implementation: pogs shows what the generated getters return
		if r != g {
			r += " GENDIFF " + Trunc(g, 400)
		}
		return kind, r, ms.name + "/" + Cls(r), true
	}
	panic("bad case: kind " + kind)
}

// canonNil: nil and empty lists are the same value ("ln" vs "l 0").
func canonNil(s string) string {
	return strings.ReplaceAll(" "+s+" ", " l 0 ", " ln ")
}

func runC19(out *Out, r *Rand, tier string, replay []string) {
	schemas := allSchemas()
	for _, ms := range schemas {
		schemaByName[ms.name] = ms
	}
	do := func(line string) {
		defer func() {
			if e := recover(); e != nil {
				if s, ok := e.(string); ok && strings.HasPrefix(s, "bad case") {
					out.Case("bad", line, "bad-case", "bad", false)
					return
				}
				panic(fmt.Sprintf("%v\ncase: %s", e, Trunc(line, 3000)))
			}
		}()
		kind, impl, class, nt := runCase(line)
		out.Case(kind, line, impl, class, nt)
	}
	for _, ms := range schemas {
		do(ms.defLine())
	}
	if replay != nil {
		for _, l := range replay {
			if !strings.HasPrefix(l, "def ") {
				do(l)
			}
		}
		out.Close("replay")
		return
	}
	n := 40
	if tier == "thorough" {
		n = 600
	}
	g := &gen{r: r, forceRootWhich: -1}
	for _, ms := range schemas {
		root := ms.root
		for i := 0; i < n; i++ {
			// (a) random Go values: round trip, and the struct pogs.Insert produces
			v := g.gstructIn(root, 0)
			do(fmt.Sprintf("rt %s %d %s", ms.name, root.id, v))
			sn := root.node.StructNode()
			db, pc := int(sn.DataWordCount())*8, int(sn.PointerCount())
			switch g.r.Intn(6) {
			case 0: // allocated struct shorter than the schema says
				db = 8 * g.r.Intn(int(sn.DataWordCount())+1)
				pc = g.r.Intn(pc + 1)
			case 1:
				db += 8 * g.r.Intn(3)
				pc += g.r.Intn(3)
			}
			do(fmt.Sprintf("ins %s %d %d %d %s", ms.name, root.id, db, pc, g.gstructIn(root, 0)))
			// Insert over pre-populated structs: random prior contents, an earlier Insert
			do(fmt.Sprintf("insp %s %d %s %s", ms.name, root.id, g.astruct(root, 0), g.gstructIn(root, 0)))
			do(fmt.Sprintf("rt2 %s %d %s %s", ms.name, root.id, g.gstructIn(root, 0), g.gstructIn(root, 0)))
			// (b)+(c) messages built by other means
			a := g.astruct(root, 0)
			do(fmt.Sprintf("ext %s %d %s", ms.name, root.id, a))
			do(fmt.Sprintf("gen %s %d %s", ms.name, root.id, a))
			a = g.astruct(root, 0)
			do(fmt.Sprintf("ext %s %d %s", ms.name, root.id, a))
			// the same kind of tree on a multi-segment arena with tiny segments: far / double-far pointers
			do(fmt.Sprintf("extf %s %d %d %s", ms.name, root.id, g.r.Intn(1000), g.astruct(root, 0)))
			// two Extracts into one destination (same root member half of the time)
			a = g.astruct(root, 0)
			g.forceRootWhich = -1
			if root.hasDisc && g.r.Bool() && len(a.data) >= int(root.discOff)*2+2 {
				g.forceRootWhich = int(a.data[root.discOff*2]) | int(a.data[root.discOff*2+1])<<8
			}
			b := g.astruct(root, 0)
			g.forceRootWhich = -1
			do(fmt.Sprintf("ext2 %s %d %s %s", ms.name, root.id, a, b))
			// C01/C02 for Extract: hostile messages, small and default limits
			for k := 0; k < 3; k++ {
				do(g.hostileCase(ms))
			}
		}
	}
	out.Extra["x_extf_multi_segment_messages"] = farMultiSeg
	out.Close("cases per mapped Go type: rt/ins = random Go values (all field kinds, nil/empty, inactive members set, unknown Which) " +
		"into structs of schema size / shorter / longer; ext/gen = struct trees generated from the schema with random data bytes, " +
		"sections shorter/longer than the schema, null / well-kinded / wrong-kinded pointers. distinct = distinct case line; " +
		"non-trivial = every case except the schema definitions")
}
