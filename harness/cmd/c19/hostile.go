package main

// Case kind `hostile`: pogs.Extract into the mapped root types from hostile messages (C01/C02 for
// the "extraction into Go structs" read-side operation):
//   hostile <name> <arena> <T> <D> <segs>      (message header syntax of verifh/rd)
// Observed: ok / err / rooterr (fine), PANIC, HANG (watchdog), and the bytes allocated by the
// Extract call compared with what the traversal budget it consumed admits:
//   alloc <= base(name) + consumed * perByte(name)
// where consumed = TraverseLimit - remaining budget, base = the cost of an Extract of an empty
// struct (schema lookup, mapStruct) and perByte = the largest mapped Go struct size + 8 KiB (one
// budget byte admits at most one list element; an element costs one Go value + one mapStruct).
// The implementation line is "hostile" when nothing is wrong (the model driver prints the same).

import (
	"fmt"
	"reflect"
	"runtime"
	"strings"
	"time"

	capnp "capnproto.org/go/capnp/v3"
	"capnproto.org/go/capnp/v3/pogs"
	"verifh/rd"
)

type hostileCal struct {
	base    uint64
	perByte uint64
}

var hostileCals = map[string]*hostileCal{}

func extractAlloc(ms *mschema, msg *capnp.Message) (res string, alloc uint64) {
	defer func() {
		if e := recover(); e != nil {
			res = "PANIC"
		}
	}()
	var m0, m1 runtime.MemStats
	runtime.ReadMemStats(&m0)
	root, err := msg.Root()
	if err != nil {
		res = "rooterr"
	} else {
		v := reflect.New(ms.root.goType)
		if err := pogs.Extract(v.Interface(), ms.root.node.Id(), root.Struct()); err != nil {
			res = "err"
		} else {
			res = "ok"
		}
	}
	runtime.ReadMemStats(&m1)
	return res, m1.TotalAlloc - m0.TotalAlloc
}

func calibrate(ms *mschema) *hostileCal {
	if c, ok := hostileCals[ms.name]; ok {
		return c
	}
	c := &hostileCal{}
	for i := 0; i < 4; i++ {
		m := &rd.Msg{Segs: [][]byte{rd.Words(rd.StructPtr(0, 0, 0))}, Arena: "S"}
		_, a := extractAlloc(ms, m.Build())
		if i > 0 && a > c.base { // run 0 warms the schema registry up
			c.base = a
		}
	}
	c.base = 2*c.base + 64<<10
	var smax uintptr
	for _, mn := range ms.nodes {
		if s := mn.goType.Size(); s > smax {
			smax = s
		}
	}
	c.perByte = uint64(smax) + 8<<10
	hostileCals[ms.name] = c
	return c
}

func pow2ceil(x uint64) int {
	k := 0
	for (uint64(1) << uint(k)) < x {
		k++
	}
	return k
}

func runHostile(ms *mschema, m *rd.Msg) (impl, class string) {
	cal := calibrate(ms)
	msg := m.Build()
	teff := m.T
	if teff == 0 {
		teff = 64 << 20
	}
	type out struct {
		res      string
		alloc    uint64
		consumed uint64
	}
	done := make(chan out, 1)
	go func() {
		res, alloc := extractAlloc(ms, msg)
		done <- out{res, alloc, teff - msg.VerifReadLimit()}
	}()
	var o out
	select {
	case o = <-done:
	case <-time.After(30 * time.Second):
		return "hostile HANG", "hang"
	}
	tc := "Tsmall"
	if m.T == 0 {
		tc = "Tdefault"
	}
	class = o.res + "/" + tc
	if o.res == "PANIC" {
		return "hostile PANIC", class
	}
	if o.consumed > teff {
		o.consumed = teff
	}
	bound := cal.base + o.consumed*cal.perByte
	if o.alloc > bound {
		return fmt.Sprintf("hostile OVERALLOC alloc<=2^%d consumed=%d bound=%d", pow2ceil(o.alloc), o.consumed, bound), class + "/overalloc"
	}
	return "hostile", class
}

// ---------------------------------------------------------------- generation

var smallRoots = map[string]bool{"Zdate": true, "PlaneBase": true, "Defaults": true, "DefaultsB": true, "VerTwoData": true,
	"RPCFinish": true, "Bag": true, "HoldsText": true, "VoidUnion": true, "ZF64": true, "ZText": true, "TagZ": true}

func (g *gen) hostileLimits(ms *mschema) (uint64, uint) {
	ts := []uint64{16, 64, 256, 1024, 8192, 65536, 262144}
	t := ts[g.r.Intn(len(ts))]
	if smallRoots[ms.name] && g.r.Intn(3) == 0 {
		t = 0 // default 64 MiB
	}
	d := []uint{0, 0, 1, 2, 3, 8}[g.r.Intn(6)]
	return t, d
}

var hostileCounts = []int32{-1, -5, -(1 << 29), 1<<29 - 1, 1 << 28, 1 << 20, 1 << 16, 4096, 2, 1, 0}

// hostileGuided: a root struct of the schema's size whose discriminant selects a mapped member
// and whose pointer slots hold hostile pointers: lists of every element kind with huge counts
// (zero-sized elements included), composite tags with negative / huge counts, pointers back to
// the root (cycles), self-referencing lists, random pointer words.
func (g *gen) hostileGuided(mn *mnode) [][]byte {
	sn := mn.node.StructNode()
	dw, pc := int(sn.DataWordCount()), int(sn.PointerCount())
	if g.r.Intn(8) == 0 {
		pc += g.r.Intn(2)
		dw = g.r.Intn(dw + 2)
	}
	data := g.dataBytes(dw * 8)
	if mn.hasDisc {
		putU16(data, int(mn.discOff)*2, g.pickWhich(mn))
	}
	ws := []uint64{rd.StructPtr(0, uint16(dw), uint16(pc))}
	for i := 0; i < dw; i++ {
		var w uint64
		for k := 7; k >= 0; k-- {
			w = w<<8 | uint64(data[i*8+k])
		}
		ws = append(ws, w)
	}
	base := 1 + dw
	tail := base + pc
	ntail := 2 + g.r.Intn(5)
	for i := 0; i < pc; i++ {
		at := base + i
		var w uint64
		switch g.r.Intn(8) {
		case 0, 1, 2: // list into the tail
			lt := uint8(g.r.Intn(8))
			n := uint32(hostileCounts[2+g.r.Intn(len(hostileCounts)-2)])
			if lt == 7 && g.r.Bool() {
				n = uint32(g.r.Intn(ntail)) // word count of a composite list
			}
			w = rd.ListPtr(int32(tail-at-1+g.r.Intn(2)), lt, n)
		case 3: // back to the root struct: cycle
			w = rd.StructPtr(int32(1-(at+1)), uint16(dw), uint16(pc))
		case 4: // list that contains itself
			w = rd.ListPtr(-1, []uint8{6, 7}[g.r.Intn(2)], uint32(1+g.r.Intn(3)))
		case 5: // struct in the tail
			w = rd.StructPtr(int32(tail-at-1), uint16(g.r.Intn(3)), uint16(g.r.Intn(3)))
		default:
			w = rd.RandPtrWord(g.r, 1, tail+ntail)
		}
		ws = append(ws, w)
	}
	for i := 0; i < ntail; i++ {
		at := tail + i
		switch g.r.Intn(5) {
		case 0: // composite tag
			ws = append(ws, rd.StructPtr(hostileCounts[g.r.Intn(len(hostileCounts))], uint16(g.r.Intn(3)), uint16(g.r.Intn(3))))
		case 1: // back to the root
			ws = append(ws, rd.StructPtr(int32(1-(at+1)), uint16(dw), uint16(pc)))
		case 2:
			ws = append(ws, rd.RandPtrWord(g.r, 1, tail+ntail))
		case 3:
			ws = append(ws, 0)
		default:
			ws = append(ws, g.r.U64())
		}
	}
	return [][]byte{rd.Words(ws...)}
}

// hostileFromTree: a schema-shaped message built with the library, serialised, then mutated.
func (g *gen) hostileFromTree(mn *mnode) (segs [][]byte) {
	defer func() {
		if e := recover(); e != nil {
			segs = nil
		}
	}()
	seg := newSeg()
	st := buildStruct(seg, g.astruct(mn, 0))
	must(seg.Message().SetRoot(st.ToPtr()))
	msg := seg.Message()
	for i := int64(0); i < msg.NumSegments(); i++ {
		s, err := msg.Segment(capnp.SegmentID(i))
		must(err)
		segs = append(segs, append([]byte(nil), s.Data()...))
	}
	if g.r.Intn(4) != 0 {
		segs = rd.Mutate(g.r, segs)
	}
	return segs
}

func (g *gen) hostileCase(ms *mschema) string {
	var segs [][]byte
	switch g.r.Pick(5, 4, 1, 1, 1) {
	case 0:
		segs = g.hostileGuided(ms.root)
	case 1:
		segs = g.hostileFromTree(ms.root)
	case 2:
		segs = rd.GenRaw(g.r)
	case 3:
		segs = rd.GenCyclic(g.r)
	default:
		if s, ok := rd.GenBuilt(g.r, 2+g.r.Intn(4), 10+g.r.Intn(40)); ok {
			segs = rd.Mutate(g.r, s)
		}
	}
	if segs == nil {
		segs = g.hostileGuided(ms.root)
	}
	for _, s := range segs {
		if len(s) > 1<<16 { // keep case lines small: the large-segment shapes belong to C01
			segs = g.hostileGuided(ms.root)
			break
		}
	}
	t, d := g.hostileLimits(ms)
	m := &rd.Msg{Segs: segs, T: t, D: d, Arena: []string{"S", "M"}[g.r.Intn(2)]}
	return "hostile " + ms.name + " " + m.Header()
}

func parseHostile(f []string) (*mschema, *rd.Msg) {
	if len(f) < 6 {
		panic("bad case: hostile")
	}
	ms := schemaByName[f[1]]
	if ms == nil {
		panic("bad case: unknown schema " + f[1])
	}
	return ms, rd.ParseHeader(f[2:6])
}

var _ = strings.Fields
