package main

// Go values of the mapped struct types <-> the model's gval token syntax.

import (
	"fmt"
	"math"
	"reflect"
	"strings"

	capnp "capnproto.org/go/capnp/v3"
)

var scratchSeg *capnp.Segment

func scratch() *capnp.Segment {
	if scratchSeg == nil {
		_, seg, err := capnp.NewMessage(capnp.MultiSegment(nil))
		must(err)
		scratchSeg = seg
	}
	return scratchSeg
}

func fieldByPath(v reflect.Value, path []int, mk bool) reflect.Value {
	for i, x := range path {
		if i > 0 && v.Kind() == reflect.Ptr {
			if v.IsNil() {
				if !mk {
					return reflect.Value{}
				}
				v.Set(reflect.New(v.Type().Elem()))
			}
			v = v.Elem()
		}
		v = v.Field(x)
	}
	return v
}

// parseGStruct fills the addressable struct value v from tokens "s <which> <n> vals" (the
// leading "s" already consumed).
func parseGStruct(t *toks, mn *mnode, v reflect.Value) {
	w := t.next()
	n := t.int()
	if n != len(mn.fields) {
		panic("bad case: field count")
	}
	if mn.wk == 'w' && w != "-" {
		var x uint64
		fmt.Sscanf(w, "%x", &x)
		fieldByPath(v, mn.whichPath, true).SetUint(x)
	}
	for _, f := range mn.fields {
		if !f.present {
			if t.next() != "_" {
				panic("bad case: value for an unmapped field")
			}
			continue
		}
		if t.t[t.i] == "_" {
			t.i++
			continue
		}
		fv := fieldByPath(v, f.path, true)
		if f.isGroup {
			parseGValueStruct(t, f.group, fv)
		} else {
			parseGValue(t, f.typ, fv)
		}
	}
}

func parseGValueStruct(t *toks, mn *mnode, fv reflect.Value) {
	switch k := t.next(); k {
	case "sn":
		if fv.Kind() != reflect.Ptr {
			panic("bad case: nil for a struct value")
		}
		fv.Set(reflect.Zero(fv.Type()))
	case "s":
		if fv.Kind() == reflect.Ptr {
			fv.Set(reflect.New(fv.Type().Elem()))
			fv = fv.Elem()
		}
		parseGStruct(t, mn, fv)
	default:
		panic("bad case: struct value " + k)
	}
}

func parseGValue(t *toks, mt *mtype, fv reflect.Value) {
	switch mt.kind {
	case 'b':
		fv.SetBool(t.next() == "t")
	case 'i':
		if k := t.next(); k != fmt.Sprintf("i%d", mt.w) {
			panic("bad case: width " + k)
		}
		x := t.hex64()
		switch fv.Kind() {
		case reflect.Int8:
			fv.SetInt(int64(int8(x)))
		case reflect.Int16:
			fv.SetInt(int64(int16(x)))
		case reflect.Int32:
			fv.SetInt(int64(int32(x)))
		case reflect.Int64:
			fv.SetInt(int64(x))
		case reflect.Float32:
			fv.SetFloat(float64(math.Float32frombits(uint32(x))))
		case reflect.Float64:
			fv.SetFloat(math.Float64frombits(x))
		default:
			fv.SetUint(x)
		}
	case 'T', 'D':
		switch k := t.next(); k {
		case "yn":
			fv.Set(reflect.Zero(fv.Type()))
		case "y":
			b := unhx(t.next())
			if fv.Kind() == reflect.String {
				fv.SetString(string(b))
			} else {
				fv.SetBytes(b)
			}
		default:
			panic("bad case: bytes " + k)
		}
	case 'L':
		switch k := t.next(); k {
		case "ln":
			fv.Set(reflect.Zero(fv.Type()))
		case "l":
			n := t.int()
			fv.Set(reflect.MakeSlice(fv.Type(), n, n))
			for i := 0; i < n; i++ {
				parseGValue(t, mt.elem, fv.Index(i))
			}
		default:
			panic("bad case: list " + k)
		}
	case 'S':
		parseGValueStruct(t, mt.node, fv)
	case 'A':
		if t.next() != "p" {
			panic("bad case: ptr")
		}
		fv.Set(reflect.ValueOf(buildPtr(scratch(), parsePtr(t))))
	default:
		panic("bad case: unsupported Go field kind " + string(mt.kind))
	}
}

// ---------------------------------------------------------------- printing

type gprinter struct {
	sb    strings.Builder
	exact bool // inputs: nil and empty byte slices are distinguished ("yn" / "y -")
	all   bool // inputs: print the values of inactive union members too
	// set when a field outside the active union member is non-zero (outputs only)
	inactiveNonZero bool
	// the same, restricted to values below a list element (always freshly allocated by Extract)
	inList                int
	inactiveNonZeroInList bool
}

func (g *gprinter) gstruct(mn *mnode, v reflect.Value) {
	var which uint64
	hasWhich := false
	ws := "-"
	switch mn.wk {
	case 'w':
		wf := fieldByPath(v, mn.whichPath, false)
		if wf.IsValid() {
			which = wf.Uint()
		}
		hasWhich = true
		ws = fmt.Sprintf("%x", which)
	case 'x':
		which = uint64(mn.fixed)
		hasWhich = true
	}
	fmt.Fprintf(&g.sb, " s %s %d", ws, len(mn.fields))
	for _, f := range mn.fields {
		if !f.present {
			g.sb.WriteString(" _")
			continue
		}
		fv := fieldByPath(v, f.path, false)
		if !fv.IsValid() {
			g.sb.WriteString(" _")
			continue
		}
		if f.dv != 0xffff && (!hasWhich || uint64(f.dv) != which) && !g.all {
			if !fv.IsZero() {
				g.inactiveNonZero = true
				if g.inList > 0 {
					g.inactiveNonZeroInList = true
				}
			}
			g.sb.WriteString(" _")
			continue
		}
		if f.isGroup {
			g.gvalStruct(f.group, fv)
		} else {
			g.gval(f.typ, fv)
		}
	}
}

func (g *gprinter) gvalStruct(mn *mnode, fv reflect.Value) {
	if fv.Kind() == reflect.Ptr {
		if fv.IsNil() {
			g.sb.WriteString(" sn")
			return
		}
		fv = fv.Elem()
	}
	g.gstruct(mn, fv)
}

func bitsOf(fv reflect.Value) uint64 {
	switch fv.Kind() {
	case reflect.Int8:
		return uint64(uint8(fv.Int()))
	case reflect.Int16:
		return uint64(uint16(fv.Int()))
	case reflect.Int32:
		return uint64(uint32(fv.Int()))
	case reflect.Int64:
		return uint64(fv.Int())
	case reflect.Float32:
		return uint64(math.Float32bits(float32(fv.Float())))
	case reflect.Float64:
		return math.Float64bits(fv.Float())
	}
	return fv.Uint()
}

func (g *gprinter) bytes(b []byte, isNil bool) {
	if isNil && g.exact {
		g.sb.WriteString(" yn")
		return
	}
	g.sb.WriteString(" y " + hx(b))
}

func (g *gprinter) gval(mt *mtype, fv reflect.Value) {
	switch mt.kind {
	case 'b':
		if fv.Bool() {
			g.sb.WriteString(" t")
		} else {
			g.sb.WriteString(" f")
		}
	case 'i':
		fmt.Fprintf(&g.sb, " i%d %x", mt.w, bitsOf(fv))
	case 'T', 'D':
		if fv.Kind() == reflect.String {
			g.bytes([]byte(fv.String()), false)
		} else {
			g.bytes(fv.Bytes(), fv.IsNil())
		}
	case 'L':
		if fv.IsNil() {
			g.sb.WriteString(" ln")
			return
		}
		fmt.Fprintf(&g.sb, " l %d", fv.Len())
		g.inList++
		for i := 0; i < fv.Len(); i++ {
			g.gval(mt.elem, fv.Index(i))
		}
		g.inList--
	case 'S':
		g.gvalStruct(mt.node, fv)
	case 'A':
		g.sb.WriteString(" p " + exportPtr(fv.Interface().(capnp.Ptr)))
	default:
		panic("unsupported Go field kind")
	}
}

// gvalOut is the canonical observation of a Go struct value (active fields only).
func gvalOut(mn *mnode, v reflect.Value) (string, bool) {
	g := &gprinter{}
	g.gstruct(mn, v)
	return g.sb.String()[1:], g.inactiveNonZero
}

// unmappedNonZero reports whether a Go field that is not mapped to any schema field (and is not
// the Which field) is non-zero: Extract must not touch such fields.
func unmappedNonZero(mn *mnode, v reflect.Value) bool {
	mapped := map[string]bool{}
	for _, f := range mn.fields {
		if f.present {
			mapped[fmt.Sprint(f.path)] = true
		}
	}
	if mn.wk == 'w' {
		mapped[fmt.Sprint(mn.whichPath)] = true
	}
	var walk func(v reflect.Value, path []int) bool
	walk = func(v reflect.Value, path []int) bool {
		t := v.Type()
		for i := 0; i < t.NumField(); i++ {
			f := t.Field(i)
			p := append(append([]int{}, path...), i)
			if f.Anonymous && isStructOrPtr(f.Type) && f.Tag.Get("capnp") == "" {
				fv := v.Field(i)
				if fv.Kind() == reflect.Ptr {
					if fv.IsNil() {
						continue
					}
					fv = fv.Elem()
				}
				if walk(fv, p) {
					return true
				}
				continue
			}
			if f.PkgPath != "" || mapped[fmt.Sprint(p)] {
				continue
			}
			if !v.Field(i).IsZero() {
				return true
			}
		}
		return false
	}
	return walk(v, nil)
}

// rootLists renders the list-typed fields of the root struct value (whatever Which says): the
// slices a caller keeps when it copies an extracted value.
func rootLists(mn *mnode, v reflect.Value) string {
	g := &gprinter{}
	for _, f := range mn.fields {
		if !f.present || f.isGroup || f.typ.kind != 'L' {
			continue
		}
		fv := fieldByPath(v, f.path, false)
		if !fv.IsValid() {
			continue
		}
		g.sb.WriteString(" " + f.name)
		g.gval(f.typ, fv)
	}
	return g.sb.String()
}
