// Package hc is the common part of the correspondence harnesses of /verif: each command
// under cmd/ generates cases from one PRNG state, runs the implementation in /repo (built
// with -tags verif) on them and writes the cases (for the extracted Coq model) and the
// implementation's canonicalised observations, one per line.
package hc

import (
	"bufio"
	"encoding/hex"
	"encoding/json"
	"flag"
	"fmt"
	"os"
	"path/filepath"
	"strings"
)

// ---------------------------------------------------------------- PRNG (splitmix64)

type Rand struct{ s uint64 }

func NewRand(seed uint64) *Rand { return &Rand{s: seed*0x9e3779b97f4a7c15 + 0x1234567} }

func (r *Rand) U64() uint64 {
	r.s += 0x9e3779b97f4a7c15
	z := r.s
	z = (z ^ (z >> 30)) * 0xbf58476d1ce4e5b9
	z = (z ^ (z >> 27)) * 0x94d049bb133111eb
	return z ^ (z >> 31)
}

// Intn returns a value in [0,n).
func (r *Rand) Intn(n int) int {
	if n <= 0 {
		return 0
	}
	return int(r.U64() % uint64(n))
}

func (r *Rand) Bool() bool { return r.U64()&1 == 1 }

// Pick returns one of the weighted choices' index.
func (r *Rand) Pick(weights ...int) int {
	t := 0
	for _, w := range weights {
		t += w
	}
	x := r.Intn(t)
	for i, w := range weights {
		if x < w {
			return i
		}
		x -= w
	}
	return len(weights) - 1
}

// ---------------------------------------------------------------- output

type Out struct {
	dir      string
	cases    *bufio.Writer
	impl     *bufio.Writer
	cf, imf  *os.File
	n        int
	kinds    map[string]int
	classes  map[string]int
	samples  []string
	Extra    map[string]interface{}
	distinct map[string]struct{}
	nontriv  int
}

func NewOut(dir string) *Out {
	if err := os.MkdirAll(dir, 0o755); err != nil {
		panic(err)
	}
	cf, err := os.Create(filepath.Join(dir, "cases.txt"))
	if err != nil {
		panic(err)
	}
	imf, err := os.Create(filepath.Join(dir, "impl.out"))
	if err != nil {
		panic(err)
	}
	return &Out{dir: dir, cf: cf, imf: imf, cases: bufio.NewWriterSize(cf, 1<<20), impl: bufio.NewWriterSize(imf, 1<<20),
		kinds: map[string]int{}, classes: map[string]int{}, Extra: map[string]interface{}{}, distinct: map[string]struct{}{}}
}

// Case records one case line and the implementation's observation for it.
// kind and class feed the input-distribution statistics; nontrivial says whether the case
// reaches the property's mechanism (rule stated by the caller in stats "rule").
func (o *Out) Case(kind, caseLine, implLine, class string, nontrivial bool) {
	if strings.ContainsAny(caseLine, "\n") || strings.ContainsAny(implLine, "\n") {
		panic("newline in case")
	}
	fmt.Fprintln(o.cases, caseLine)
	fmt.Fprintln(o.impl, implLine)
	o.n++
	o.kinds[kind]++
	o.classes[kind+"/"+class]++
	if _, ok := o.distinct[caseLine]; !ok {
		o.distinct[caseLine] = struct{}{}
		if nontrivial {
			o.nontriv++
		}
	}
	if len(o.samples) < 6 && (o.n%97 == 1 || len(o.samples) < 2) {
		s := caseLine
		if len(s) > 200 {
			s = s[:200] + "..."
		}
		o.samples = append(o.samples, s+" => "+Trunc(implLine, 120))
	}
}

func Trunc(s string, n int) string {
	if len(s) > n {
		return s[:n] + "..."
	}
	return s
}

func (o *Out) Close(rule string) {
	o.cases.Flush()
	o.impl.Flush()
	o.cf.Close()
	o.imf.Close()
	st := map[string]interface{}{
		"evaluations":         o.n,
		"distinct":            len(o.distinct),
		"distinct_nontrivial": o.nontriv,
		"kinds":               o.kinds,
		"classes":             o.classes,
		"samples":             o.samples,
		"rule":                rule,
	}
	for k, v := range o.Extra {
		st[k] = v
	}
	b, _ := json.MarshalIndent(st, "", " ")
	if err := os.WriteFile(filepath.Join(o.dir, "stats.json"), b, 0o644); err != nil {
		panic(err)
	}
}

func Hx(b []byte) string {
	if len(b) == 0 {
		return "-"
	}
	return hex.EncodeToString(b)
}

func Unhx(s string) []byte {
	if s == "-" {
		return nil
	}
	b, err := hex.DecodeString(s)
	if err != nil {
		panic(err)
	}
	return b
}

// ---------------------------------------------------------------- main

// CmdFn runs one harness: replay == nil means "generate from r".
type CmdFn func(out *Out, r *Rand, tier string, replay []string)

// Main parses the common flags (-out DIR -seed N -tier quick|thorough -replay FILE) and runs fn.
func Main(fn CmdFn) {
	outDir := flag.String("out", "", "output directory")
	seed := flag.Uint64("seed", 1, "PRNG seed")
	tier := flag.String("tier", "quick", "quick|thorough")
	replay := flag.String("replay", "", "file with case lines to run instead of generating")
	flag.Parse()
	if *outDir == "" {
		fmt.Fprintln(os.Stderr, "usage: <cmd> -out DIR [-seed N] [-tier quick|thorough] [-replay FILE]")
		os.Exit(2)
	}
	var lines []string
	if *replay != "" {
		b, err := os.ReadFile(*replay)
		if err != nil {
			panic(err)
		}
		lines = []string{}
		for _, l := range strings.Split(string(b), "\n") {
			l = strings.TrimSpace(l)
			if l != "" && !strings.HasPrefix(l, "#") {
				lines = append(lines, l)
			}
		}
	}
	out := NewOut(*outDir)
	fn(out, NewRand(*seed), *tier, lines)
}

// Safely runs f and maps a Go panic to the observation "panic".
func Safely(f func() string) (res string) {
	defer func() {
		if e := recover(); e != nil {
			res = "panic"
		}
	}()
	return f()
}

// Cls is the first word of an observation line (its class).
func Cls(res string) string {
	if i := strings.IndexByte(res, ' '); i >= 0 {
		return res[:i]
	}
	return res
}

// Ints / ParseInts: comma separated integer lists inside case lines.
func Ints(xs []int) string {
	s := make([]string, len(xs))
	for i, x := range xs {
		s[i] = fmt.Sprint(x)
	}
	return strings.Join(s, ",")
}

func ParseInts(s string) []int {
	var r []int
	for _, f := range strings.Split(s, ",") {
		var x int
		fmt.Sscan(f, &x)
		r = append(r, x)
	}
	return r
}
