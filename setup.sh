#!/bin/sh
# Full clean build of the framework, offline: Coq development (full .vo), extracted OCaml
# drivers, Go harness (warms the Go build cache).
set -e
cd "$(dirname "$0")"
export GOFLAGS=-mod=mod GOPROXY=off GOSUMDB=off GOTOOLCHAIN=local CGO_ENABLED=0
rm -rf build
mkdir -p build evidence replays
find coq -name '*.vo' -o -name '*.vok' -o -name '*.vos' -o -name '*.glob' -o -name '.*.aux' | xargs -r rm -f
rm -f coq/Makefile coq/Makefile.conf coq/_CoqProject coq/.Makefile.d coq/*.ml coq/*.mli
python3 - <<'PY'
import sys
sys.path.insert(0, 'lib')
import vcheck
vcheck.coq_prepare()
PY
python3 lib/setup_gen.py
(cd coq && timeout 3000 make -k -j16 2>&1 | tail -n 40) || true
python3 lib/setup_build.py
echo "setup done"
