import json, os, subprocess, sys
sys.path.insert(0, os.path.join(os.path.dirname(os.path.abspath(__file__)), "..", "lib"))
import vcheck

ID = "C15"
LEVEL = "proof"
COQ_TARGETS = ["Props/Properties_C15.vo", "Layout/GenCheck.vo", "Layout/Examples.vo", "Extract/ExtractLayout.vo"]
PROPS_FILES = ["Props/Properties_C15.v"]
RUNS = [dict(name="layout", harness="c15", driver="layout", model_ml="layout_model")]
EXTRA_OBLIGATIONS = ["Layout/GenCheck.v:generated_defrefs_match (pointer slot + default bytes of getters and X_Future accessors)",
                     "Layout/GenCheck.v:generated_typerefs_match (qualified generated type names vs schema type ids)",
                     "Layout/GenCheck.v:generated_fields_match (vm_compute over Gen/GenAccessors.v)",
                     "Layout/GenCheck.v:generated_fields_wf", "Layout/GenCheck.v:generated_nodes_match"]

WORK = os.path.join(vcheck.BUILD, "c15")
_state = {}


def _count(res):
    return 60 if res is not None and res.tier == "thorough" else 14


def generate(res):
    """Build capnpc-go and genir from the current sources, run the generator on the corpus, translate the
    emitted accessors into coq/Gen/GenAccessors.v, compile the emitted packages and the dynamic driver."""
    os.makedirs(WORK, exist_ok=True)
    env = vcheck.GOENV
    capnpc = os.path.join(WORK, "capnpc-go")
    rc, out = vcheck.sh(["go", "build", "-o", capnpc, "./capnpc-go"], cwd=vcheck.REPO, env=env, timeout=900)
    if rc != 0:
        raise RuntimeError("capnpc-go does not build: " + out[-1500:])
    gd = os.path.join(vcheck.VERIF, "genir")
    vcheck.write_if_changed(os.path.join(gd, "go.sum"), open(os.path.join(vcheck.REPO, "go.sum")).read())
    genir = os.path.join(WORK, "genir")
    rc, out = vcheck.sh(["go", "build", "-o", genir, "."], cwd=gd, env=env, timeout=900)
    if rc != 0:
        raise RuntimeError("genir does not build: " + out[-1500:])
    seed = res.seed if res is not None else 1
    rc, out = vcheck.sh([genir, "run", "-repo", vcheck.REPO, "-capnpc", capnpc, "-work", WORK,
                         "-coq", os.path.join(vcheck.COQ, "Gen", "GenAccessors.v"), "-seed", str(seed),
                         "-count", str(_count(res)), "-go", vcheck.GO], cwd=vcheck.VERIF, env=env, timeout=1800)
    if rc != 0:
        raise RuntimeError("genir failed: " + out[-2500:])
    rep = json.load(open(os.path.join(WORK, "report.json")))
    _state["report"] = rep
    notes = []
    for e in rep:
        notes.append("%s[%s]: generated=%s deterministic(8 runs)=%s translated=%s compiles=%s fields=%d nodes=%d" % (
            e["name"], e["source"], e["gen_ok"], e["determinism"], e["translated"], e["compiles"], e["fields"], e["nodes"]))
    if res is None:
        return notes
    kf = [k for k in vcheck.known_findings() if k.get("property") == ID and k.get("status") == "known"]
    import re

    def report(sig, body, name=""):
        body += "\nreplay: build/c15/capnpc-go < build/c15/gen/%s/request.bin   (the request is rebuilt by genir on every run)" % name
        m = [k for k in kf if re.fullmatch(k["signature"], sig)]
        if m:
            res.known.append("%s: %s" % (sig, m[0].get("what", "")))
            return
        rp = vcheck.write_replay(ID, res.seed, re.sub(r"[^A-Za-z0-9]+", "_", sig)[:60],
                                 "# property C15, generator run, signature %s\n# %s\n" % (sig, body.replace("\n", "\n# ")))
        res.violation(rp)

    for e in rep:
        src, name = e["source"], e["name"]
        tag = e.get("expect") or name
        if not e["gen_ok"]:
            if src == "testdata":
                continue  # stored requests the generator rejects with an error message (const.capnp: package "const"; go.capnp: no $import)
            kind = "panic" if "panic:" in e.get("gen_err", "") else "error"
            report("generator/%s/%s/%s" % (kind, src, tag if src == "probe" else "schema"),
                   "the generator fails on a valid request (%s): %s" % (name, e.get("gen_err", "")), name)
            continue
        if e["determinism"] != "identical":
            report("determinism/%s" % src, "%s: output differs between the 8 runs" % name, name)
        if not e["translated"]:
            report("translate/%s" % src, "%s: emitted accessor not understood by genir (fail closed): %s" % (name, e.get("trans_err", "")), name)
        if e["compiles"] == "NO":
            report("compile/%s/%s" % (src, tag if src in ("probe", "multifile", "boundary") else "schema"),
                   "%s: the emitted package does not compile: %s" % (name, e.get("compile_err", "")), name)
    return notes


def classify(run, case, impl, model):
    f = case.split()
    union = "union" if len(f) > 7 and f[7] != "65535" else "plain"
    return "%s/%s/%s/impl=%s/model=%s" % (f[0], f[4] if len(f) > 4 else "?", union, impl.split()[0], model.split()[0])


def violates(run, case, impl, model):
    # the model side is the bit-range specification itself (spec_get/spec_set/spec_has): an emitted accessor
    # that disagrees with it reads or writes something else than the schema's range / default / discriminant
    return not impl.startswith("bad-case") and not impl.startswith("no-such")


def post(res, stats, mismatches):
    """When the kernel obligation of Layout/GenCheck.v fails: say WHICH emitted accessors differ from gen_accessor."""
    vo = os.path.join(vcheck.COQ, "Layout", "GenCheck.vo")
    src = os.path.join(vcheck.COQ, "Gen", "GenAccessors.vo")
    if not os.path.exists(src) or (os.path.exists(vo) and os.path.getmtime(vo) >= os.path.getmtime(src)):
        return
    q = ("From CV Require Import Layout.Layout Gen.GenAccessors.\n"
         "Definition badf := filter (fun p => negb (ir_eqb (snd p) (gen_accessor (fst p)))) fields.\n"
         "Definition badn := filter (fun p => negb (nir_eqb (snd p) (gen_node (fst p)))) nodes.\n"
         "Definition badw := filter (fun p => negb (CV.Layout.LayoutMain.field_wfb (fst p))) fields.\n"
         "Definition badt := filter (fun p => negb (typerefs_match [p])) typerefs.\n"
         "Eval vm_compute in (length badf, length badn, length badw, length badt).\n"
         "Eval vm_compute in firstn 6 badt.\n"
         "Definition badd := filter (fun p => negb (defrefs_match [p])) defrefs.\n"
         "Eval vm_compute in (length badd, firstn 4 badd).\n"
         "Eval vm_compute in firstn 3 badf.\n"
         "Eval vm_compute in map (fun p => gen_accessor (fst p)) (firstn 3 badf).\n"
         "Eval vm_compute in firstn 3 badn.\n"
         "Eval vm_compute in map (fun p => gen_node (fst p)) (firstn 3 badn).\n"
         "Eval vm_compute in map fst (firstn 3 badw).\n")
    q = q.replace("CV.Layout.LayoutMain.field_wfb", "field_wfb").replace(
        "From CV Require Import Layout.Layout Gen.GenAccessors.", "From CV Require Import Layout.Layout Layout.LayoutMain Gen.GenAccessors.")
    qp = os.path.join(WORK, "diag.v")
    open(qp, "w").write(q)
    rc, out = vcheck.sh(["coqc", "-Q", ".", "CV", "-o", os.path.join(WORK, "diag.vo"), qp], cwd=vcheck.COQ, timeout=600)
    rp = vcheck.write_replay(ID, res.seed, "emitted_vs_model",
                             "# Layout/GenCheck.v does not check: (emitted fields differing from gen_accessor, nodes differing from gen_node,\n"
                             "# descriptors that are not field_wf), the first three of each with what the model expects:\n# "
                             + out[-6000:].replace("\n", "\n# ") + "\n")
    vcheck.log("note: emitted accessors that differ from the generator model are listed in " + rp)


EXPLANATION = ("Theorems for ALL field descriptors (kind x offset x default x discriminant) and all struct contents about gen_accessor, "
               "the Gallina mirror of capnpc-go's defineField/Offset()/intFieldDefaultMask/_settag/_checktag/_hasfield: the generated "
               "getter/setter/Has/New equal a specification written on bit ranges only (field_range), which has the round-trip, frame, "
               "default and union properties. The tie to the current generator: genir parses the Go emitted by capnpc-go (built from "
               "../repo on every run) for a corpus of requests into the IR and the kernel checks that every emitted accessor equals "
               "gen_accessor of its schema descriptor; the emitted packages are also compiled and run against the extracted specification.")
TRUSTED = ["genir (go/parser based translator of emitted accessor bodies into the IR, fail-closed shape matching; pairing of schema "
           "fields with emitted methods by X_TypeID constants, group getter result types and strings.Title of the $Go.name-renamed field name)",
           "the struct model (Struct.UintN/SetUintN/Bit/SetBit/Ptr/HasPtr/SetPtr of struct.go) is hand-written; pointer slots are abstract "
           "tokens (what SetPtr/readPtr do with the object is C03/C04 territory)",
           "dynamic driver build/c15/mod/rundrv (reflection calls into the emitted packages)"]
MODELLED = ["text/template rendering and go/format (only their result is parsed)", "contents of pointer defaults (only presence is in the IR; the "
            "value is compared dynamically)", "Go map iteration order / scheduling in the generator: output determinism is OBSERVED (8 runs per request)",
            "'compiles' is OBSERVED per corpus schema with go build"]
ASSUMPTIONS = ["field descriptors are well formed: uint32 offsets whose bit position stays below 2^32, typed defaults, discriminant not "
               "overlapping the member (checked by the kernel for every corpus field: generated_fields_wf)",
               "runtime structs have DataSize*8 < 2^32"]
LEVEL_TEXT = ("Proof: for every well-formed field descriptor the accessors computed by the generator model read and write exactly the schema's bit "
              "range / pointer slot, XOR the default, set/check the discriminant (round trip, frame, exact bits, default on zero bytes, union "
              "panics/Has, setter panics exactly outside the runtime struct, sizes). The per-run kernel check ties each accessor emitted for the "
              "corpus (stored requests, std schemas, random schemas) to the model; emitted code is compiled and run against the extracted specification.")
LEVEL_NOTE = ("Trusted: Coq kernel, genir's shape matching, the hand-written struct model, extraction, the reflection driver. 'compiles' and "
              "byte-identical output are observed per corpus request, not proved.")
TECHNIQUE = "Coq proof over a generator model + translator (emitted Go -> IR) with kernel-checked equality + extracted-spec/emitted-code differential run"
DESIGN_REF = "DESIGN.md section 6, C15"

# ---- L0b: kernel-checked agreement of the arithmetic this property's model restates with the
# ---- Go source (coq/Gen/GoArith2.v is regenerated by gotrans on every run; see docs/gotrans.md)
import l0_common as _l0
COQ_TARGETS = list(COQ_TARGETS) + _l0.COQ_TARGETS2_BY_OWNER["C15"]
EXTRA_OBLIGATIONS = list(globals().get("EXTRA_OBLIGATIONS", [])) + _l0.EXTRA_OBLIGATIONS2_BY_OWNER["C15"]
_l0_prev_generate = globals().get("generate")


def generate(res):
    notes = list(_l0_prev_generate(res) or []) if (_l0_prev_generate and _l0_prev_generate is not _l0.generate) else []
    return notes + list(_l0.generate(res) or [])
