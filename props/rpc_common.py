"""Shared configuration of the RPC properties C06, C07, C08: one model (coq/Rpc), one harness
(harness/cmd/c06), one driver (ocaml/rpc_driver.ml).  Each property selects the streams it
needs and judges disagreements against its own predicate."""
import os
import re

COQ_COMMON = ["Extract/ExtractRpc.vo", "Rpc/RpcRefuted.vo"]


def run(name, kinds, salt=0):
    return dict(name=name, harness="c06", driver="rpc", model_ml="rpc_model",
                harness_args=["-kinds", kinds, "-salt", str(salt)], timeout=3000)


def steps(case, impl, model):
    """(events, impl observations, model observations) of one history."""
    f = case.split(" ", 3)
    evs = [re.sub(r"#.*", "", e) for e in f[3].split(";")] if len(f) > 3 and f[3] else []
    return evs, impl.split("|")[1:], model.split("|")[1:]


def first_diff(case, impl, model):
    evs, io, mo = steps(case, impl, model)
    n = 0
    while n < min(len(io), len(mo)) and io[n] == mo[n]:
        n += 1
    ev = evs[n] if n < len(evs) else "end"
    return n, ev, (io[n] if n < len(io) else ""), (mo[n] if n < len(mo) else "")


def parts(obs):
    """messages, deliveries, local results, view of one observation"""
    p = obs.split("~")
    while len(p) < 4:
        p.append("")
    return p[0].split("+") if p[0] else [], p[1], p[2], p[3]


def kind_of(obs):
    if obs.startswith("end:"):
        return "end:" + ("PANIC" if "PANIC" in obs else "LEAKED" if "LEAKED" in obs else "refs")
    for w in ("PANIC", "STUCK", "LEAKED", "REUSE"):
        if w in obs:
            return w
    if obs == "":
        return "none"
    msgs, _, _, _ = parts(obs)
    ks = sorted(set(re.match(r"[A-Z][a-z]?|\?", m).group(0) if re.match(r"[A-Z][a-z]?|\?", m) else "?" for m in msgs))
    return "msgs:" + "".join(ks) if ks else "quiet"


def classify(run, case, impl, model):
    n, ev, i, m = first_diff(case, impl, model)
    evk = ev[0] if ev != "end" else "end"
    sig = "event=%s/impl=%s/model=%s" % (evk, kind_of(i), kind_of(m))
    # a Return while a local call is held inside PlaceArgs (h without its u): the peer may be answering a question whose
    # Call it cannot have seen -- the one place where the machine knowingly leaves rpc.Conn (docs/C06.md, "heldret")
    evs, _, _ = steps(case, impl, model)
    held = sum(1 for e in evs[:n] if e.startswith("h")) - sum(1 for e in evs[:n] if e.startswith("u"))
    if evk == "R" and held > 0:
        sig += "/heldret"
    return sig


def crashed(impl):
    return any(w in impl for w in ("PANIC", "STUCK", "LEAKED", "REUSE"))


EXPLANATION = ("Theorems over ALL event lists (peer messages with arbitrary field values, application actions, in any "
               "order) about an executable Gallina machine of rpc.Conn at the granularity of one handler per event "
               "(coq/Rpc/Rpc.v). They are theorems about the machine; they say something about rpc.Conn as far as the "
               "machine follows it, which is checked, not proved, and knowingly fails in one situation: a peer that answers "
               "a question whose Call is still being built (known finding 'heldret'). The machine is tied to the code by running the extracted machine and rpc.Conn "
               "(inside testing/synctest, run to quiescence after every event, every history in a child process) on the "
               "same histories: scripted scenarios, a mostly-valid stream generated from what the peer has observed, and "
               "a malformed stream (bad ids, absent exports, null payloads, unknown union members, byte-level corruption).")
TRUSTED = ["model coq/Rpc/Rpc.v hand-written from rpc/rpc.go, answer.go, question.go, import.go, export.go, idgen.go; "
           "handler granularity: every event is run to quiescence (interleavings inside one handler are C09's lock "
           "programs, not this model)",
           "the projection of rpc.capnp messages to events (harness/cmd/c06/codec.go) is computed with the library's own "
           "reader (justified by C01/C03)",
           "testing/synctest quiescence, GOMAXPROCS(1) in the child processes; rpc/verif_view.go (read-only table counts)"]
MODELLED = ["transport (in-memory, never fails: faults are C09)", "server.Server and its answerQueue (only: calls queued "
            "behind an unreturned answer are delivered in order when it returns, or rejected with it)",
            "capnp.Client reference counting (as counters per capability)", "sync.Mutex / sender lock (a handler that "
            "would block for ever is the outcome Stuck)"]
ASSUMPTIONS = ["capabilities the local application puts into results are local servers or null; into parameters: local "
               "servers, resolved imports it holds, null",
               "local servers acknowledge delivery at once and return when the history says so; at shutdown every "
               "running call returns",
               "fewer than 2^32-1 ids are allocated per table in one connection (idgen.next panics beyond; stated as the "
               "hypothesis work evs < 2^32-1 of the theorems)"]
TECHNIQUE = "Coq proof (invariants over fold_left step for all event lists) + extracted-machine/implementation differential run"


def agreed_crashes(pid, run_name):
    """Histories on which implementation AND model crash / wedge in the same way: the comparison is
    silent about them, so they are collected here (known findings that are not repaired)."""
    import vcheck
    d = os.path.join(vcheck.BUILD, "run", pid + "-" + run_name)
    try:
        cases = vcheck.read_lines(os.path.join(d, "cases.txt"))
        impl = vcheck.read_lines(os.path.join(d, "impl.out"))
        model = vcheck.read_lines(os.path.join(d, "model.out"))
    except OSError:
        return []
    res = []
    for c, i, m in zip(cases, impl, model):
        if i == m and crashed(i):
            evs, io, _ = steps(c, i, m)
            ev = evs[len(io) - 1] if 0 < len(io) <= len(evs) else "end"
            res.append(("agreed/event=%s/%s" % (ev[0] if ev != "end" else "end", kind_of(io[-1])), c, i))
    return res


def make_post(pid, run_name):
    def post(res, stats, mismatches):
        import vcheck
        kf = [k for k in vcheck.known_findings() if k.get("property") == pid and k.get("status") == "known"]
        groups = {}
        for sig, c, i in agreed_crashes(pid, run_name):
            groups.setdefault(sig, []).append((c, i))
        for sig, ms in sorted(groups.items()):
            matched = [k for k in kf if re.fullmatch(k["signature"], sig)]
            if matched:
                res.known.append("%s (%d cases this run): %s" % (sig, len(ms), matched[0].get("what", "")))
                continue
            ms.sort(key=lambda x: len(x[0]))
            c, i = ms[0]
            body = ("# property %s: implementation and model agree, and both crash / wedge (signature %s, %d cases)\n"
                    "# implementation: %s\n# replay with: ./check %s --replay <this file>\n%s\n" % (pid, sig, len(ms), i[:2000], pid, c))
            res.violation(vcheck.write_replay(pid, res.seed, re.sub(r"[^A-Za-z0-9]+", "_", sig)[:60], body))
    return post
