"""L0 translator tie (gotrans), shared by the property checks that rest on Core/Arith.v
(C01, C03, C05, ...).  Usage in props/Cxx.py:

    import l0_common
    generate = l0_common.generate                       # regenerates coq/Gen/GoArith.v from ../repo
    COQ_TARGETS = [...] + l0_common.COQ_TARGETS
    PROPS_FILES = [...] + l0_common.PROPS_FILES         # optional: Print Assumptions of the L0 theorems
    RUNS = [...] + l0_common.RUNS                       # the translation validation
    TRUSTED = [...] + l0_common.TRUSTED
    def classify(run, case, impl, model):
        if run == l0_common.RUN_NAME: return l0_common.classify(run, case, impl, model)
        ...
    def violates(run, case, impl, model):
        if run == l0_common.RUN_NAME: return l0_common.violates(run, case, impl, model)
        ...

Second group (integer logic that the OTHER hand-written models restate, coq/Gen/GoArith2.v):

    COQ_TARGETS = [...] + l0_common.COQ_TARGETS2_BY_OWNER["C14"]   # only what the property's model restates
    (or l0_common.COQ_TARGETS2 for all of it), PROPS_FILES2 = ["Props/Properties_L0b.v"] (restates ALL
    second-group theorems, so it depends on all owners' models), RUNS2 (translation validation of the
    second group), TRUSTED2, EXTRA_OBLIGATIONS2_BY_OWNER (theorem names for EXTRA_OBLIGATIONS).
    generate() regenerates both generated files.  See docs/gotrans.md for the owner table.

`./l0check.sh [--tier quick|thorough]` runs all of it stand-alone and prints OK / FAIL.
"""
import os
import sys

sys.path.insert(0, os.path.join(os.path.dirname(os.path.abspath(__file__)), "..", "lib"))
import vcheck  # noqa: E402

GOTRANS_DIR = os.path.join(vcheck.VERIF, "gotrans")
GOARITH_V = os.path.join(vcheck.COQ, "Gen", "GoArith.v")
GOARITH_SIGS = os.path.join(vcheck.COQ, "Gen", "GoArith.sigs")

# what the integrator asked for, plus the extraction (needed by the RUN) and the restated theorems
COQ_TARGETS = ["Gen/GoArith.vo", "Gen/GoArithAgree.vo", "Core/ArithFacts.vo",
               "Extract/ExtractGoArith.vo", "Props/Properties_L0.vo"]
PROPS_FILES = ["Props/Properties_L0.v"]
RUN_NAME = "l0"
RUN = dict(name=RUN_NAME, harness="l0", driver="l0", model_ml="goarith_model")
RUNS = [RUN]

# ---- second group
GOARITH2_V = os.path.join(vcheck.COQ, "Gen", "GoArith2.v")
GOARITH2_SIGS = os.path.join(vcheck.COQ, "Gen", "GoArith2.sigs")
EXTRACT2 = _EX2 = "Extract/ExtractGoArith2.vo"  # needed in COQ_TARGETS by whoever adds RUNS2
COQ_TARGETS2_BY_OWNER = {
    # property -> .vo files whose build is the kernel-checked obligation "the Go code still says what the model restates"
    "C04": ["Gen/Agree2Builder.vo"], "C05": ["Gen/Agree2Builder.vo"], "C16": ["Gen/Agree2Builder.vo"],
    "C14": ["Gen/Agree2Frame.vo"],
    "C15": ["Gen/Agree2Layout.vo"],
    "C19": ["Gen/Agree2Pogs.vo"],
    "C20": ["Gen/Agree2Text.vo"],
    "C13": ["Gen/Agree2Misc.vo"],
}
EXTRA_OBLIGATIONS2_BY_OWNER = {
    "C04": ["Gen/Agree2Builder.v:go_nextAlloc_agrees", "Gen/Agree2Builder.v:go_hasCapacity_agrees",
            "Gen/Agree2Builder.v:go_maxAllocSize_agrees"],
    "C14": ["Gen/Agree2Frame.v:go_streamHeaderSize_agrees", "Gen/Agree2Frame.v:go_segmentSize_agrees",
            "Gen/Agree2Frame.v:go_segmentSize_agrees_header"],
    "C15": ["Gen/Agree2Layout.v:go_gen_Offset_agrees", "Gen/Agree2Layout.v:go_intbits_agrees",
            "Gen/Agree2Layout.v:go_intbits_other", "Gen/Agree2Layout.v:go_intFieldDefaultMask_agrees",
            "Gen/Agree2Layout.v:go_intFieldDefaultMask_invalid"],
    "C19": ["Gen/Agree2Pogs.v:go_isFieldInBounds_agrees"],
    "C20": ["Gen/Agree2Text.v:go_needsEscape_agrees", "Gen/Agree2Text.v:go_hexDigit_agrees"],
    "C13": ["Gen/Agree2Misc.v:go_packed_min_agrees"],
}
EXTRA_OBLIGATIONS2_BY_OWNER["C05"] = EXTRA_OBLIGATIONS2_BY_OWNER["C16"] = EXTRA_OBLIGATIONS2_BY_OWNER["C04"]
COQ_TARGETS2 = ["Gen/GoArith2.vo", "Gen/GoArithAgree2.vo", _EX2, "Props/Properties_L0b.vo"]
PROPS_FILES2 = ["Props/Properties_L0b.v"]
RUN2_NAME = "l0b"
RUN2 = dict(name=RUN2_NAME, harness="l0", driver="l0b", model_ml="goarith2_model", harness_args=["-group", "2"])
RUNS2 = [RUN2]
TRUSTED2 = [
    "second group of gotrans: error results are observed as nil / non-nil only; a for loop is a Fixpoint over an explicit "
    "fuel (agreement theorems prove the stated fuel sufficient); constant-string indexing is go_index_bytes; parameters of "
    "slice / capnp struct type are replaced by the abstracted quantities listed in gotrans/targets.go (cap(b), len(b), "
    "t.Which(), v.IsValid(), v.Which(), intValue(v), p.Field.Slot().Offset(), p.Bits, the 32-bit word read by segmentSize)",
    "capnpc-go (package main) is validated through a child process built with -tags verif (capnpc-go/verif_arith.go)",
]

TRUSTED = [
    "translator gotrans (Go subset -> Gallina, gotrans/*.go) and the Go-integer semantics of coq/Base/GoSem.v "
    "(wrap at + - * << unary - ^ and narrowing conversions; Z.quot/Z.rem; Z.shiftr on the signed value; "
    "Z.land/lor/lxor/ldiff on two's complement Z); mitigated by the translation validation run (real Go functions "
    "via capnp.VerifArith vs the definitions extracted from the generated file)",
    "int, uint, uintptr are 64 bits wide (64-bit platforms only)",
    "go/types (constant evaluation, static types) of the go1.26.8 toolchain",
    "methods of *Segment / Struct / *Message are translated as functions of the abstracted quantities listed in "
    "gotrans/targets.go (len(s.data), p.off, p.size, p.seg != nil; canRead: the body of the CAS loop)",
]


def build_gotrans():
    os.makedirs(os.path.join(vcheck.BUILD, "bin"), exist_ok=True)
    exe = os.path.join(vcheck.BUILD, "bin", "gotrans")
    with vcheck.Lock("gotrans"):
        rc, out = vcheck.sh([vcheck.GO, "build", "-o", exe, "."], cwd=GOTRANS_DIR, env=vcheck.GOENV, timeout=900)
    if rc != 0:
        raise RuntimeError("gotrans does not build:\n" + out[-2000:])
    return exe


def generate(res):
    """Regenerate coq/Gen/GoArith.v (+ .sigs) from ../repo, write-if-changed.
    Raises (the check reports the translator failing closed) when a target function left the
    supported subset.  Returns notes for the evidence: source hashes, changed/unchanged."""
    exe = build_gotrans()
    with vcheck.Lock("gotrans-run"):
        rc, out = vcheck.sh([exe, "-repo", vcheck.REPO, "-out", GOARITH_V, "-sigs", GOARITH_SIGS,
                             "-out2", GOARITH2_V, "-sigs2", GOARITH2_SIGS],
                            cwd=vcheck.VERIF, env=vcheck.GOENV, timeout=600)
    if rc != 0:
        raise RuntimeError(out.strip()[-1500:])
    notes = [line.replace(vcheck.VERIF + "/", "") for line in out.strip().split("\n") if line]
    for grp, path in (("", GOARITH_SIGS), (" (second group)", GOARITH2_SIGS)):
        nfun = 0
        for line in open(path):
            if line.startswith("# "):
                notes.append("source sha256%s %s" % (grp, line[2:].strip()))
            elif line.strip() and not line.startswith("struct "):
                nfun += 1
        notes.append("gotrans: %d functions translated%s" % (nfun, grp))
    return notes


def classify(run, case, impl, model):
    return "%s/%s/impl=%s/model=%s" % (run if run == RUN2_NAME else "l0", case.split()[0], impl.split()[0], model.split()[0])


def violates(run, case, impl, model):
    # a disagreement between the real Go function and the generated definition is a translator
    # bug (the tie is broken), not a violation of a property by the implementation
    return False


# ------------------------------------------------------------------ stand-alone check

def main(argv):
    import argparse
    ap = argparse.ArgumentParser()
    ap.add_argument("--tier", default=os.environ.get("VERIF_TIER", "quick"))
    ap.add_argument("--replay", default=None)
    a = ap.parse_args(argv)
    seed = int(os.environ.get("VERIF_SEED", "1") or "1")
    fails = []
    log = vcheck.log
    try:
        for n in generate(None):
            log(n)
    except Exception as e:
        # the generated file is stale now: nothing below would say anything about the current source
        log("translator failed closed: %s" % e)
        log("FAIL l0check: gotrans")
        return 1
    all_targets = COQ_TARGETS + COQ_TARGETS2
    ok, out = vcheck.coq_make(all_targets)
    if not ok:
        f, line = vcheck.coq_failed_file(out)
        log(out[-3000:])
        log("coq build failed at %s line %d" % (f, line))
        fails.append("coq")
    else:
        log("coq: %s built" % " ".join(all_targets))
        for pf in PROPS_FILES + PROPS_FILES2:
            _, pa, _ = vcheck.print_assumptions(pf)
            bad = {k: v for k, v in pa.items() if v != "Closed under the global context"}
            log("Print Assumptions: %d theorems, %d not closed" % (len(pa), len(bad)))
            if bad or not pa:
                log(str(bad))
                fails.append("assumptions")
    # audit our own files (the owners' model files are audited by their properties)
    mine = [f for f in vcheck.coq_dep_closure([t[:-1] for t in all_targets])
            if f.split("/")[0] in ("Base", "Gen", "Extract") or f in ("Core/Arith.v", "Core/ArithMore.v", "Core/ArithFacts.v",
                                                                       "Props/Properties_L0.v", "Props/Properties_L0b.v")]
    bad = vcheck.audit(mine)
    if bad:
        log("audit: forbidden constructs:\n" + "\n".join(bad))
        fails.append("audit")
    else:
        log("audit: clean")
    extracted = ok
    if not ok:
        # still validate the translator: the extraction depends on the generated file only.
        # proof broken + validation agrees => the Go arithmetic changed; validation disagrees => translator bug
        extracted, out2 = vcheck.coq_make(["Extract/ExtractGoArith.vo", _EX2])
        if not extracted:
            log(out2[-1500:])
    if extracted:
        okh, exe, hout = vcheck.build_harness(RUN["harness"])
        if not okh:
            log("harness build failed:\n" + hout[-3000:])
            fails.append("harness")
        else:
            runs = (RUN, RUN2)
            if a.replay:
                # a replay file belongs to the group that translates the function of its first case
                first = [l.split()[0] for l in open(a.replay) if l.strip() and not l.startswith("#")][:1]
                names2 = set(l.split()[0] for l in open(GOARITH2_SIGS) if l.strip() and l[0] not in "#s")
                runs = (RUN2,) if first and first[0] in names2 else (RUN,)
            for run in runs:
                res = vcheck.Result("L0", a.tier, seed)
                stats, mism, err = vcheck.run_pair(res, None, run, exe, a.tier, seed, a.replay)
                if err:
                    log("translation validation %s could not be run: %s" % (run["name"], err))
                    fails.append("validation")
                    continue
                log("translation validation %s: %d cases (%d distinct), %d disagreements"
                    % (run["name"], stats["evaluations"], stats["distinct"], len(mism)))
                groups = {}
                for (c, i, m) in mism:
                    groups.setdefault(classify(run["name"], c, i, m), []).append((c, i, m))
                for sig, ms in sorted(groups.items()):
                    ms.sort(key=lambda x: len(x[0]))
                    log("  %s: %d cases, e.g. %s  impl: %s  model: %s" % ((sig, len(ms)) + ms[0]))
                if mism:
                    fails.append("validation")
    if fails:
        log("FAIL l0check: " + ", ".join(fails))
        return 1
    log("OK l0check tier=%s seed=%d" % (a.tier, seed))
    return 0


if __name__ == "__main__":
    sys.exit(main(sys.argv[1:]))
