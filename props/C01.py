import l0_common
import read_common as rc

ID = "C01"
LEVEL = "proof"
generate = rc.generate
COQ_TARGETS = ["Props/Properties_C01.vo", "Extract/ExtractCore.vo", "Frame/FramePackedSafe.vo"] + l0_common.COQ_TARGETS
EXTRA_OBLIGATIONS = ["Frame/FramePackedSafe.v:pdecode_n_then_read_safe_any"]
PROPS_FILES = ["Props/Properties_C01.v"] + l0_common.PROPS_FILES
RUNS = [rc.READ_RUN] + l0_common.RUNS
EXPLANATION = ("Theorems: for every message (any number of segments, any lengths up to 2^32-8, any bytes) and any limits, "
               "Root never panics; every accessor on a well-formed pointer returns a value or an error, returned pointers "
               "are well-formed (their object lies inside its segment) and returned bytes are sub-lists of the supplied "
               "segment; hence every op list over the handle pool (C01_run_safe) and the generic recursive walker "
               "(C01_walk_safe) are panic-free. The model is tied to the code by the translator (L0 arithmetic) and by "
               "running op lists + walker on the real accessors and on the extracted model; a Go panic is a violation "
               "whether or not the model agrees.")
TRUSTED = rc.CORE_TRUSTED
MODELLED = rc.CORE_MODELLED + ["the recursive consumers Equal / Canonicalize / copy / text / pogs are covered for panic-freedom "
                               "by their own properties' runs (C16-C20); here the generic walker stands for their recursion"]
ASSUMPTIONS = ["segments <= 2^32-8 bytes; 64-bit platform; arguments in the documented domain"]
LEVEL_TEXT = ("Proof (Coq, all inputs / all op lists) of panic-freedom and in-segment results for the read-side model, "
              "with the L0 arithmetic regenerated from the Go source and re-checked on every run; model tied to the code by "
              "a differential run over built, raw, mutated and cyclic messages.")
LEVEL_NOTE = ("Trusted: Coq kernel, gotrans translator (validated against the real functions), extraction, harness. "
              "Real stack/heap exhaustion of the Go runtime is not modelled; work is bounded by C02 instead.")
TECHNIQUE = "Coq proof over an executable model + source-to-Coq translator for the arithmetic + differential run"
DESIGN_REF = "DESIGN.md section 6, C01"

classify = rc.classify


def impl_violation(run, case, impl):
    return run == "read" and rc.has_panic(impl)


def violates(run, case, impl, model):
    if run == l0_common.RUN_NAME:
        return l0_common.violates(run, case, impl, model)
    return rc.has_panic(impl)
