ID = "C01"
CLAIM = False  # work in progress: not yet in MANIFEST.json
LEVEL = "other"
COQ_TARGETS = ["Extract/ExtractCore.vo"]
PROPS_FILES = []
RUNS = [dict(name="read", harness="c01", driver="core", model_ml="core_model")]
EXPLANATION = "work in progress"
TRUSTED = []
MODELLED = []
ASSUMPTIONS = []
LEVEL_TEXT = "wip"
LEVEL_NOTE = "wip"
TECHNIQUE = "Coq proof over an executable model + extracted-model/implementation differential run"
DESIGN_REF = "DESIGN.md section 6, C01"


def classify(run, case, impl, model):
    io = impl.split(";")
    mo = model.split(";")
    ops = case.split()[4].split(";") if len(case.split()) > 4 else []
    for k in range(min(len(io), len(mo))):
        if io[k] != mo[k]:
            op = ops[k].split(":")[0] if k < len(ops) else "?"
            def c(x):
                if x.startswith("P("): return "ptr"
                if x[:1] in "NBX" : return x[:1]
                if "!" in x and "(" in x or x == "panic": return "panic"
                return x[:12]
            return "%s/impl=%s/model=%s" % (op, c(io[k]), c(mo[k]))
    for k in range(len(io)):
        if io[k] == "panic" or "!" in io[k]:
            op = ops[k].split(":")[0] if k < len(ops) else "?"
            return "%s/impl=panic/model=agrees" % op
    return "length"


def impl_violation(run, case, impl):
    return "panic" in impl or "!" in impl


def violates(run, case, impl, model):
    return impl_violation(run, case, impl)
