import l0_common
import read_common as rc

ID = "C01"
LEVEL = "proof"
generate = rc.generate
COQ_TARGETS = ["Props/Properties_C01.vo", "Props/Properties_C01_text.vo", "Extract/ExtractCore.vo", "Frame/FramePackedSafe.vo"] + l0_common.COQ_TARGETS
EXTRA_OBLIGATIONS = ["Frame/FramePackedSafe.v:pdecode_n_then_read_safe_any"]
PROPS_FILES = ["Props/Properties_C01.v", "Props/Properties_C01_text.v"] + l0_common.PROPS_FILES
RUNS = [rc.READ_RUN] + l0_common.RUNS
EXPLANATION = ("Theorems: for every message (any number of segments, any lengths up to 2^32-8, any bytes) and any limits, "
               "Root never panics; every accessor on a well-formed pointer returns a value or an error, returned pointers "
               "are well-formed (their object lies inside its segment) and returned bytes are sub-lists of the supplied "
               "segment; hence every op list over the handle pool (C01_run_safe) and the generic recursive walker "
               "(C01_walk_safe) are panic-free. The model is tied to the code by the translator (L0 arithmetic) and by "
               "running op lists + walker on the real accessors and on the extracted model; a Go panic is a violation "
               "whether or not the model agrees.")
TRUSTED = rc.CORE_TRUSTED
MODELLED = rc.CORE_MODELLED + ["recursive consumers: Equal, Canonicalize and the cross-message deep copy have Go-faithful models "
                               "(Value/EqualM.v, Value/CanonM.v, Core/Builder.v) and C01 theorems; text.Marshal and pogs.Extract "
                               "have models of their own (coq/Text, coq/Pogs) that are NOT composed with the reader model: for them "
                               "the generic walker (C01_walk_safe) stands for the recursion and the C19 / C20 runs cover panic-freedom"]
ASSUMPTIONS = ["the input is a string of bytes; 64-bit platform; arguments in the documented domain (list index in [0,Len()), "
               "DataOffset < 2^19, pointer index a uint16). 'every segment <= 2^32-8 bytes, bytes 0..255' (msg_ok) is no longer an "
               "assumption for messages that come from Unmarshal / UnmarshalPacked / Decoder (plain or packed): it is proved "
               "(C01_unmarshal_msg_ok, C01_decode1_msg_ok, C01_pdecode_n_then_read_safe_any); it remains one for a Message built "
               "directly over an application-supplied Arena (Message.Segment does not check segment lengths)"]
LEVEL_TEXT = ("Proof (Coq, all inputs / all op lists) of panic-freedom and in-segment results for the read-side model, from raw "
              "bytes through Unmarshal / UnmarshalPacked / Decoder (any chunking, plain and packed, malformed packed streams "
              "included) to every in-domain accessor sequence and the generic walker, and for the consumers Equal, Canonicalize "
              "and cross-message deep copy; L0 arithmetic regenerated from the Go source and re-checked on every run; model tied "
              "to the code by a differential run over built, raw, mutated and cyclic messages. text.Marshal: a Go-faithful model "
              "of the encoder's walk composed with the reader model (Text/TextRead.v render_r) is proved panic-free with every "
              "accessor call on a well-formed receiver for all segment bytes, all well-formed schemas, all limits "
              "(C01_text_render_no_panic, C01_text_render_reads_wf); that model is NOT yet tied to text.Marshal by a run of its "
              "own. NOT proved: pogs.Extract on hostile bytes (see note).")
LEVEL_NOTE = ("text.Marshal: coq/Text/TextRead.v models marshalStruct / marshalFieldValue / marshalList / marshalEnum and the typed "
              "lists' String methods reading the value through Core/Reader.v (data fields, Struct.Ptr, HasPtr, List.Struct, "
              "PointerList.At, UIntNList.At, BitList.At, Ptr.text / Data, unions, groups, defaults for null AND wrong-kind "
              "pointers, the () cut of fix 4b73eba) over TextM's schema representation. Proved for ALL segment bytes, all "
              "schemas satisfying the decidable schema_wf (supported widths, DataOffset < 2^19, group nesting <= G), all T, D, all "
              "fuel: never RPanic (C01_text_render_no_panic); every accessor call has a well-formed receiver, so "
              "C01_accessor_safe gives in-segment results for each (C01_text_render_reads_wf). Limits of this part: the walk of a "
              "schema DEFAULT value (it lives in the schema message, not in the hostile message) is an argument of the model "
              "(instantiated with TextM.shown_struct / shown_list; its result type has no panic outcome, so nothing is assumed for "
              "C01); schema reads are free (schema budget: C20); the destination writer's errors and strconv are not modelled; "
              "a schema with data offsets >= 2^19 is outside schema_wf (Struct.UintN panics there by documentation); the model "
              "render_r is checked against the code only through the shared reader model and the Coq examples "
              "(Text/TextReadExamples.v) - a differential run of text.Marshal vs the extracted render_go on hostile / cyclic "
              "messages is NOT yet built (C20's hostile run covers panic-freedom of the real code). "
              "Remaining gap, in plain words: the property text also names 'extraction into Go structs', and DESIGN "
              "planned a [T1] consumers_total for it. There is NO C01 theorem for pogs.Extract over the reader "
              "model on arbitrary bytes. What exists: C19_extract_never_panics / C19_extract_total / C19_extract_fuel_sufficient "
              "are over the pogs model's abstract struct contents (not over segment bytes), and C20 has only "
              "C20_render_total_flat_partial; the pogs model is not composed with Core/Reader.v. For pogs.Extract panic-freedom on "
              "hostile messages is covered only by the C19 differential run (a Go panic is a violation there) and by "
              "C01_walk_safe for the recursion shape it shares. Everything else in the statement (root, accessors, all call "
              "sequences, Equal, Canonicalize, deep copy, packed and unpacked framing) has a theorem. "
              "Also not modelled as ops: Interface.Client() / capability-table lookup and the *Default accessors (no memory "
              "access beyond the modelled ones); C01_accessor_safe states for typed list reads only that the value comes from an "
              "in-segment address (which address: C03). "
              "Trusted: Coq kernel, gotrans translator (validated against the real functions), extraction, harness. "
              "Real stack/heap exhaustion of the Go runtime is not modelled; work is bounded by C02 instead.")
TECHNIQUE = "Coq proof over an executable model + source-to-Coq translator for the arithmetic + differential run"
DESIGN_REF = "DESIGN.md section 6, C01"

def classify(run, case, impl, model):
    if run == "pogsread":
        def c(x):
            f = x.split()
            return f[1] if len(f) > 1 and f[0] == "hostile" else (f[0] if f else "<none>")
        if impl == model:
            return "same"
        what = "class" if c(impl) != c(model) else "budget"
        return "pogsread/%s impl=%s model=%s" % (what, c(impl), c(model))
    return rc.classify(run, case, impl, model)


def impl_violation(run, case, impl):
    return run == "read" and rc.has_panic(impl)


def violates(run, case, impl, model):
    if run == "pogsread":
        return "PANIC" in impl or "HANG" in impl
    if run == l0_common.RUN_NAME:
        return l0_common.violates(run, case, impl, model)
    return rc.has_panic(impl)


# ---- run "pogsread": msg.Root() + pogs.Extract on hostile bytes vs coq/Pogs/PogsRead.v (extract_msg)
RUNS = RUNS + [dict(name="pogsread", harness="c01pogs", driver="pogsread", model_ml="pogsread_model")]
COQ_TARGETS = COQ_TARGETS + ["Extract/ExtractPogsRead.vo"]

# ---- consumer pogs.Extract composed with the reader model (coq/Pogs/PogsRead.v, PogsReadProofs.v); appended, supersedes
# ---- the words "pogs.Extract" in the NOT-proved sentences above (text.Marshal is handled in its own appended block)
COQ_TARGETS = COQ_TARGETS + ["Props/Properties_C01_pogs.vo"]
PROPS_FILES = PROPS_FILES + ["Props/Properties_C01_pogs.v"]
LEVEL_TEXT = LEVEL_TEXT + (
    " UPDATE pogs.Extract: now proved (C01_pogs_extract_never_panics, C01_pogs_extract_msg_never_panics, "
    "C01_pogs_extract_receivers_wf) for the Go-faithful model extract_r of pogs/extract.go reading through the Core reader "
    "model: for ALL segment bytes (msg_ok), all limits, all fuel and every mapped schema accepted by the decidable predicate "
    "rschema_ok (slot offsets in the accessors' documented domain, no non-null struct / list / AnyPointer schema default, finite "
    "by-value nesting) msg.Root() + pogs.Extract never panics and every struct / list it reads is a well-formed pointer of the "
    "message (so C01_accessor_safe applies to every read). Tied to the code by the run 'pogsread' (outcome class and remaining "
    "traversal budget of pogs.Extract vs extract_msg on hostile / cyclic / mutated messages).")
LEVEL_NOTE = LEVEL_NOTE + (
    " UPDATE pogs.Extract - what is still NOT proved: (1) schemas with a non-null struct / list / AnyPointer default: the model "
    "stops with the outcome XDefault where extraction would continue inside the schema message (trusted bytes; C19 theorems over "
    "abstract contents cover that part, the two are not composed); (2) extract_r is not related by a theorem to PogsM.extract_struct "
    "on the decoded struct contents; (3) Interface.Client() (capability table lookup) is abstracted to the interface pointer; "
    "mapStruct (reflect) is represented by its result, the field map, as in C19; (4) 'never yields data from outside the segments' "
    "is the wf-receiver invariant + C01_accessor_safe, not a separate statement about the produced Go value.")
