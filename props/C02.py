import read_common as rc

ID = "C02"
LEVEL = "proof"
COQ_TARGETS = ["Props/Properties_C02.vo", "Extract/ExtractCore.vo"]
PROPS_FILES = ["Props/Properties_C02.v"]
RUNS = [rc.READ_RUN]
EXPLANATION = ("Theorems: exact accounting of every readPtr against the traversal budget (a refusal zeroes it), total "
               "handed out <= T for any op list and for the walker; depth: level(handle) + depthLimit(handle) <= D for any "
               "mix of Struct.Ptr / PointerList.At / List.Struct (saturating decrement), so nothing is dereferenced more "
               "than D levels below the root; the walker with fuel D+1 never runs out of fuel and makes at most T/8+1 "
               "successful dereferences also on cyclic graphs; canRead's CAS loop for any number of threads under every "
               "interleaving keeps granted <= T and terminates. Tie: the remaining budget (hook VerifReadLimit) and the "
               "depthLimit of every pointer (hook VerifInfo) are compared with the model after each op; concurrent "
               "readers are checked against the invariant the theorem states.")
TRUSTED = rc.CORE_TRUSTED
MODELLED = rc.CORE_MODELLED
ASSUMPTIONS = ["segments <= 2^32-8 bytes; 64-bit platform"]
LEVEL_TEXT = ("Proof (Coq) of the traversal and depth bounds over all messages, limits, op lists and CAS interleavings; "
              "differential run compares budget and depth values exactly.")
LEVEL_NOTE = "Trusted: Coq kernel, extraction, harness, hooks VerifReadLimit/VerifInfo (read-only). Go stack growth is not modelled."
TECHNIQUE = "Coq proof (invariants over op lists and over all interleavings of a small-step CAS model) + differential run"
DESIGN_REF = "DESIGN.md section 6, C02"

classify = rc.classify


def impl_violation(run, case, impl):
    return (case.startswith(("conc", "exhaust", "reuse"))) and impl.startswith("VIOLATION")


def violates(run, case, impl, model):
    # budget / depth / error-vs-pointer differences are violations of the limits when the
    # implementation hands out more than the model (which is proved to respect them)
    if case.startswith(("conc", "exhaust", "reuse")):
        return impl.startswith("VIOLATION")
    op, a, b = rc.first_diff(case, impl, model)
    if op is None:
        return False
    if rc.cls(a) == "ptr" and rc.cls(b) in ("err", "ptr"):
        return True          # handed out although refused by the model / with another depth limit
    if rc.cls(a) == "N" and rc.cls(b) == "N":
        return True          # remaining budget differs
    return rc.cls(a) == "tree"
