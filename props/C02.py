import read_common as rc

ID = "C02"
LEVEL = "proof"
COQ_TARGETS = ["Props/Properties_C02.vo", "Props/Properties_C02_text.vo", "Extract/ExtractCore.vo"]
PROPS_FILES = ["Props/Properties_C02.v", "Props/Properties_C02_text.v"]
RUNS = [rc.READ_RUN]
EXPLANATION = ("Theorems: exact accounting of every readPtr against the traversal budget (a refusal zeroes it), total "
               "handed out <= T for any op list and for the walker; per incarnation of a reused message (Message.Reset / "
               "Decoder.ReuseBuffer re-arm exactly initReadLimit's value) and per budget epoch when the application calls "
               "ResetReadLimit / Unread; the budget is never negative; depth: level(handle) + depthLimit(handle) <= D for any "
               "mix of Struct.Ptr / PointerList.At / List.Struct (saturating decrement), so nothing is dereferenced more "
               "than D levels below the root; the walker with fuel D+1 never runs out of fuel and makes at most T/8+1 "
               "successful dereferences also on cyclic graphs; Equal (fuel D+2), Canonicalize and deep copy (fuel 2D+1) never "
               "run out of fuel, never increase the budget, hand out at most what they consume, and append at most "
               "5 x (size + consumed) + const bytes to their destination; canRead's CAS loop for any number of threads under "
               "every interleaving keeps granted <= T and terminates (schedule length <= measure). Tie: the remaining budget "
               "(hook VerifReadLimit) and the depthLimit of every pointer (hook VerifInfo) are compared with the model after "
               "each op, including reset / setlimit / unread; concurrent readers are checked against the invariant the "
               "theorem states.")
TRUSTED = rc.CORE_TRUSTED
MODELLED = rc.CORE_MODELLED
ASSUMPTIONS = ["64-bit platform; 0 <= T. 'segments <= 2^32-8 bytes' is needed only by the walker / consumer theorems and is "
               "discharged for decoded messages by C01 (C01_unmarshal_msg_ok ...). Message.ResetReadLimit and Message.Unread are "
               "application-controlled and RAISE the budget: they are modelled (OResetLimit, OUnread) and the bound is then per "
               "budget epoch (C02_traversal_bound_epochs); 'total <= T' holds only for applications that do not call them"]
LEVEL_TEXT = ("Proof (Coq) of the traversal and depth bounds over all messages, limits, op lists (with Reset / ResetReadLimit / "
              "Unread: per incarnation / epoch) and CAS interleavings, and for the consumers Equal, Canonicalize and deep copy; "
              "differential run compares budget and depth values exactly. text.Marshal (model render_r = the encoder's walk composed with the reader model, "
              "Text/TextRead.v): PARTIAL - bytes handed out + budget left <= budget at the start and fuel (G+3)*D+G+1 suffices on every "
              "message incl. cyclic ones, the latter provided the walk of the schema's own default values is total "
              "(C02_text_render_budget_partial, C02_text_render_no_fuel_partial); the dereference-count bound is not proved for it. "
              "NOT proved: the bounds for pogs.Extract (see note).")
LEVEL_NOTE = ("Gap, in plain words: the property says 'every recursive consumer (deep copy, canonicalise, equality, text, "
              "extraction)'. Equal, Canonicalize and deep copy have theorems over Go-faithful models. text.Marshal now has a "
              "Go-faithful walk over the reader model (Text/TextRead.v) with, for all segment bytes, all schema_wf schemas, all T, D: "
              "(1) C02_text_render_no_fuel_partial: with fuel >= fuel_for G D = (G+3)*D+G+1 the walk never runs out of fuel on any "
              "message, cyclic included (every recursion through a pointer lowers depthLimit; groups are bounded by the schema's "
              "nesting G) - under the hypothesis dflt_total that the walks of the schema's own DEFAULT values (TextM.shown_struct / "
              "shown_list over the trusted schema message, cut by fix 4b73eba) do not run out of fuel, which is NOT proved here "
              "(C20 has only render_total_flat_partial); (2) C02_text_render_budget_partial: budget never negative, bytes handed "
              "out + budget left <= budget at start (<= T). NOT proved for text: successful dereferences <= T/8+1 (the walker's "
              "argument 'each pointer slot is dereferenced once' needs a schema predicate 'no two simultaneously active pointer "
              "fields share a slot', not stated yet; the model counts dereferences in r_d), and the model is not yet run against "
              "text.Marshal by a differential run of its own. pogs.Extract "
              "has NO C02 theorem over the reader model (its own model in coq/Pogs is not composed with "
              "Core/Reader.v; C19_extract_fuel_sufficient bounds pogs' recursion by the schema rank and the struct tree, not by "
              "T and D): for it the generic walker (C02_walk_bounded) stands for the recursion and the C19 run observes "
              "the budget. 'Time bounded by T': the theorems bound successful dereferences (<= T/8+1), bytes handed out (<= T) "
              "and recursion depth; the number of list-element visits and null-slot visits is not stated as a theorem (it follows "
              "from 'every list element is charged >= 8 bytes' but is not proved). "
              "Trusted: Coq kernel, extraction, harness, hooks VerifReadLimit/VerifInfo (read-only). Go stack growth is not modelled.")
TECHNIQUE = "Coq proof (invariants over op lists and over all interleavings of a small-step CAS model) + differential run"
DESIGN_REF = "DESIGN.md section 6, C02"

classify = rc.classify


def impl_violation(run, case, impl):
    return (case.startswith(("conc", "exhaust", "reuse"))) and impl.startswith("VIOLATION")


def violates(run, case, impl, model):
    # budget / depth / error-vs-pointer differences are violations of the limits when the
    # implementation hands out more than the model (which is proved to respect them)
    if case.startswith(("conc", "exhaust", "reuse")):
        return impl.startswith("VIOLATION")
    op, a, b = rc.first_diff(case, impl, model)
    if op is None:
        return False
    if rc.cls(a) == "ptr" and rc.cls(b) in ("err", "ptr"):
        return True          # handed out although refused by the model / with another depth limit
    if rc.cls(a) == "N" and rc.cls(b) == "N":
        return True          # remaining budget differs
    return rc.cls(a) == "tree"

# ---- consumer pogs.Extract composed with the reader model (coq/Pogs/PogsRead.v, PogsReadFuel.v); appended, supersedes
# ---- the words "pogs.Extract" in the NOT-proved sentences above (text.Marshal is handled in its own appended block)
COQ_TARGETS = COQ_TARGETS + ["Props/Properties_C02_pogs.vo"]
PROPS_FILES = PROPS_FILES + ["Props/Properties_C02_pogs.v"]
LEVEL_TEXT = LEVEL_TEXT + (
    " UPDATE pogs.Extract: recursion depth now proved (C02_pogs_extract_fuel_sufficient, C02_pogs_extract_r_fuel): for ALL "
    "segment bytes (cyclic messages included), all T, D and every mapped schema with rschema_ok G, the Go-faithful model "
    "extract_r with fuel >= (D+1)*G never runs out of fuel (G = by-value nesting of groups / struct-valued Go fields, the only "
    "recursion of extractStruct that does not go through a dereference lowering depthLimit). The traversal-budget / dereference-"
    "count / allocation bounds for pogs.Extract are NOT proved (see note).")
LEVEL_NOTE = LEVEL_NOTE + (
    " UPDATE pogs.Extract - NOT proved: (d) 'successful dereferences <= T/8+1' and 'bytes handed out <= T' for extract_r (the model "
    "threads the budget through the same readPtr as the walker and counts dereferences and slice cells in ghost fields x_nd / "
    "x_cells, the run 'pogsread' of C01 compares the remaining budget with the code exactly, but no theorem bounds them); "
    "(e) size of the produced Go value: by inspection of extract.go reflect.MakeSlice(n = List.Len()) happens AFTER readPtr charged "
    "the list (max(element size, 8 if 0) x n >= n bytes), so the total number of slice cells is <= the budget consumed <= T, and "
    "bytes allocated <= cells x sizeof(Go element type): a schema-dependent amplification (a 16-byte message holding a list of "
    "T/8 zero-sized elements extracted into []S allocates T/8 x sizeof(S)). This is stated, not proved; C19's hostile run checks "
    "alloc <= base + consumed x (largest mapped Go struct + 8 KiB) on the real code and has not reported an OVERALLOC.")
