ID = "C13"
LEVEL = "proof"
COQ_TARGETS = ["Props/Properties_C13.vo", "Extract/ExtractPacked.vo"]
PROPS_FILES = ["Props/Properties_C13.v"]
RUNS = [dict(name="packed", harness="c13", driver="packed", model_ml="packed_model")]
EXPLANATION = ("Theorems over all byte strings / all oracles about the Gallina model of internal/packed "
               "(Pack, Unpack, Reader.ReadWord, Reader.Read) and the grammar decoder PackSpec; the model is tied to the code by "
               "running the extracted model and packed.Pack/Unpack/Reader on the same inputs.")
TRUSTED = ["model coq/Packed/Packed.v hand-written from internal/packed/packed.go; bufio.Reader is modelled as an "
           "oracle for Buffered()>=9, both in ReadWord's fast-path test and in Read's short-read test (two independent "
           "oracle streams; the theorems C13_stream_agrees and C13_read_agrees quantify over all of them, and "
           "C13_read_agrees also over all sequences of request sizes >= 1)"]
MODELLED = ["bufio.Reader", "allocWords growth policy (only the resulting bytes are modelled)"]
ASSUMPTIONS = ["bytes are 0..255; payload lengths < 2^31"]


def classify(run, case, impl, model):
    op = case.split()[0]
    return "%s/impl=%s/model=%s" % (op, impl.split()[0], model.split()[0])


def violates(run, case, impl, model):
    # the model is proved equal to the packing grammar, so any disagreement on these
    # observables is a property violation of the implementation at this input
    return True

LEVEL_TEXT = ("Proof: for all word-aligned payloads unpack(pack x)=x on the model of Unpack and on an independent grammar "
              "decoder; for all inputs the one-shot decoder equals the grammar decoder (truncation is an error, nothing is "
              "invented); for all inputs and all fast/slow path choices the streaming ReadWord loop agrees with the one-shot "
              "decoder; for all inputs, all request-size sequences (each >= 1 byte), all fast-path and all short-read choices "
              "the concatenation of what Reader.Read returns and its final error equal the one-shot decoder's output and "
              "verdict (C13_read_agrees, fuel bound 2304*len+1); output <= 1024 x input. The model is tied to internal/packed by a differential run (extracted OCaml "
              "vs Pack/Unpack/Reader.Read/ReadWord) on structured, truncated and malformed inputs.")
LEVEL_NOTE = ("Trusted: Coq kernel, extraction, harness; the model is hand-written (coq/Packed/Packed.v). bufio.Reader is an "
              "oracle (Buffered() is a free boolean at every test; its value is never tied to the bytes actually buffered). "
              "Reader.Read's byte interface is covered by theorem (coq/Packed/ReadCallProofs.v) and by the correspondence run.")
TECHNIQUE = "Coq proof over an executable model + extracted-model/implementation differential run"
DESIGN_REF = "DESIGN.md section 6, C13"
