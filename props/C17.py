ID = "C17"
LEVEL = "proof"
COQ_TARGETS = ["Props/Properties_C17.vo", "Props/Properties_C17_total.vo", "Extract/ExtractValue.vo"]
PROPS_FILES = ["Props/Properties_C17.v", "Props/Properties_C17_total.v"]
RUNS = [dict(name="equal", harness="c17", driver="value", model_ml="value_model", driver_args=["c17"])]
EXPLANATION = ("capnp.Equal is modelled step by step (coq/Value/EqualM.v: bytewise fast path, traversal-limit consumption, error "
               "and panic paths, two messages or one) over the read-side model. Theorem C17_equal_m_correct: for all messages, "
               "pointers, fuel and remaining budgets, whenever the (repaired) model answers (b, nil), b = value_eq of the values "
               "the two pointers denote (coq/Value/Den.v: the value of a pointer, defined directly on the message bytes); "
               "reflexivity, symmetry and layout independence follow; the documented equality value_eq "
               "(coq/Value/ValueEq.v) is reflexive, symmetric and not transitive. On every generated pair the harness "
               "compares capnp.Equal with the extracted equal_m (result, remaining traversal budgets) AND with value_eq of the "
               "walked trees.")
TRUSTED = ["model coq/Value/EqualM.v hand-written from pointer.go (Equal); clients are abstract identities (IsSame = equality "
           "of ids, 0 = nil client; unresolved promises, released clients are outside the model)",
           "the documented equality coq/Value/ValueEq.v is a reading of Equal's doc comment, with decisions beyond it stated in "
           "the file header: bit lists have no struct view (comment silent; independent decision, exposed F01); non-struct lists "
           "of different element kinds are unequal even when empty (the comment's literal 'same length and elements equal' is "
           "OVERRIDDEN, following the code and the encoding specification), as are the pointer-list upgrade and the table-bound "
           "condition of capability identity: on these three points the specification mirrors the implementation",
           "den (coq/Value/Den.v) is the proof's notion of 'the value a pointer denotes'; the harness evaluates value_eq on the "
           "executable decoder vdec, proved sound for den (C17_vdec_den); boundary-size ('big') cases bypass the list-based "
           "model (quadratic) and compare Equal with the answer known by construction"]
MODELLED = ["capnp.Client identity (abstract ids)", "Go slices with cap == len (the harness copies every segment)"]
ASSUMPTIONS = ["message bytes are 0..255 and segments are shorter than 2^32 - 8 bytes (msg_ok); 64-bit platform",
               "partial correctness (C17_equal_m_correct) is conditional on Equal returning (b, nil); totality "
               "(C17_equal_m_total / C17_equal_m_answers) says it does return (b, nil) when the pointers are well formed "
               "(wf_ptr: what the reader hands out), their depth budgets cover the nesting, the traversal budgets cover the "
               "cost measure of trav, and fuel >= depth limit + 2; with smaller limits it may return an error"]
LEVEL_TEXT = ("Proof: for all value trees the documented equality is reflexive, symmetric, contains the schema-level equality "
              "and is not transitive (witnesses). For all messages, all pairs of pointers (one message or two), all fuel and "
              "budgets: if the repaired model of Equal answers (b, nil) then b = value_eq of the denoted values "
              "(C17_equal_m_correct: structs with zero extension of data and pointer sections, all list kinds with the "
              "bytewise fast path and the primitive/pointer-list upgrade, bit lists, capabilities, null); hence Equal is "
              "reflexive, symmetric and independent of the layout (C17_equal_refl/sym/layout_independent). The model is tied "
              "to pointer.go by a differential run (capnp.Equal vs extracted equal_m vs value_eq of the walked trees) on value "
              "pairs in random layouts. Defects F01 and O3 found by that run and fixed; pre-fix models kept with witnesses. "
              "Totality (Properties_C17_total.v): Equal answers (b, nil) whenever depth limits and traversal budgets cover "
              "the traversability measures of both pointers (C17_equal_m_total), every denoted pointer has such measures "
              "(C17_den_trav), hence Equal returns exactly value_eq of the denoted values under covering limits "
              "(C17_equal_m_answers).")
LEVEL_NOTE = ("Total correctness is now proved on the model (coq/Value/EqualTotal.v, EqualTotalDen.v; Properties_C17_total.v): "
              "C17_equal_m_total -- for all messages, one or two, all well-formed pointers p, q that are traversable "
              "(trav p da ca, trav q db cb: every reachable Struct.Ptr succeeds, nesting depth da/db, sum of the read sizes "
              "of all pointers below = ca/cb), depth budgets >= da/db, traversal budgets >= ca / cb (ca + cb when both "
              "pointers share a message), fuel >= depth limit + 2: equal_m returns (EOk b, w') -- never an error, panic or "
              "fuel exhaustion -- and consumes at most ca / cb. Charge function: exactly LimitProofs.readSize of every "
              "pointer Struct.Ptr hands out on the common slots visited (EqualAcct.equal_mA); trav's cost sums over ALL "
              "slots, so it is an upper bound (sufficient, not necessary: Equal stops at the first difference and skips "
              "extra pointer slots). C17_den_trav: every pointer with a denotation is traversable with depth = nesting depth "
              "of the value; C17_equal_m_answers: pointers denoting va, vb are answered with exactly value_eq va vb under all "
              "covering limits. PARTIAL: C17_den_defined_of_valid_partial derives the denotation (and its measures) from the "
              "success of the executable decoder vdec, not from the Spec validity predicate (strict_valid_message); the link "
              "valid message => vdec succeeds is NOT proved. The depth slack is the value's vdepth (a list costs 2, a struct 1), "
              "not the minimal depth Equal needs. value_eq is not transitive (witness). Three rules of value_eq follow the code "
              "rather than the doc comment (see TRUSTED). Trusted: Coq kernel, extraction, harness, hand-written model. The "
              "specification side of the run is evaluated on vdec (sound for den).")
TECHNIQUE = "Coq proof over an executable model + extracted-model/implementation differential run"
DESIGN_REF = "DESIGN.md section 6, C17"


def _f(line):
    f = line.split()
    return f + ["?"] * (6 - len(f))


def _far_null(case):
    """Does a message of the case contain a far pointer whose landing pad word is null (observation O3)?"""
    try:
        f = case.split()
        for col in (5, 11):
            if f[col] in ("_", "-"):
                continue
            segs = []
            for h in f[col].split(","):
                if h.startswith("Z"):
                    n, pre = h[1:].split(":")
                    b = bytes.fromhex(pre) if pre not in ("", "-") else b""
                    segs.append(b + bytes(int(n) - len(b)))
                else:
                    segs.append(bytes.fromhex(h) if h not in ("-", "_") else b"")
            for s in segs:
                for k in range(0, len(s) - 7, 8):
                    w = int.from_bytes(s[k:k + 8], "little")
                    if w & 3 == 2 and w & 4 == 0:
                        sid, off = w >> 32, ((w & 0xffffffff) >> 3) * 8
                        if sid < len(segs) and off + 8 <= len(segs[sid]) and segs[sid][off:off + 8] == bytes(8):
                            return True
    except Exception:
        pass
    return False


def classify(run, case, impl, model):
    if case.startswith("big"):
        return "%s/impl=%s/model=%s" % (case.split()[0], impl.split()[0], model.split()[0])
    kind = case.split()[0].split("/")
    if _far_null(case):
        kind = [kind[0] + "+farnull"] + kind[1:]
    i, m = _f(impl), _f(model)
    what = "res"
    if i[0] == m[0]:
        what = "limits" if (i[1], i[2]) != (m[1], m[2]) else ("spec" if i[3] != m[3] else "tree")
    mut = kind[1] if len(kind) > 1 and kind[0] in ("pair", "same") else ""
    return "%s/%s/%s/impl=%s,%s/model=%s,%s" % (kind[0], mut, what, i[0], i[3], m[0], m[3])


def violates(run, case, impl, model):
    # the property's own predicate on the implementation: Equal (generous limits) differs from the documented
    # equality of the walked trees, or Equal panics
    if case.startswith("big"):
        return impl != model    # Equal differs from the answer known by construction
    i, m = _f(impl), _f(model)
    if i[0] == "panic" or i[3] == "panic":
        return True
    return m[3] in ("T", "F") and i[3] != m[3] and i[4:] == m[4:]
