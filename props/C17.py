ID = "C17"
LEVEL = "other"
COQ_TARGETS = ["Extract/ExtractValue.vo"]
PROPS_FILES = []
RUNS = [dict(name="equal", harness="c17", driver="value", model_ml="value_model", driver_args=["c17"])]
EXPLANATION = "work in progress"
TRUSTED = []
MODELLED = []
ASSUMPTIONS = []
LEVEL_TEXT = "wip"
LEVEL_NOTE = "wip"
TECHNIQUE = "Coq proof over an executable model + extracted-model/implementation differential run"
DESIGN_REF = "DESIGN.md section 6, C17"


def _f(line):
    f = line.split()
    return f + ["?"] * (6 - len(f))


def classify(run, case, impl, model):
    kind = case.split()[0].split("/")
    i, m = _f(impl), _f(model)
    what = "res"
    if i[0] == m[0]:
        what = "limits" if (i[1], i[2]) != (m[1], m[2]) else ("spec" if i[3] != m[3] else "tree")
    mut = kind[1] if len(kind) > 1 and kind[0] in ("pair", "same") else ""
    return "%s/%s/%s/impl=%s,%s/model=%s,%s" % (kind[0], mut, what, i[0], i[3], m[0], m[3])


def violates(run, case, impl, model):
    # the property's own predicate on the implementation: Equal (generous limits) differs from the documented
    # equality of the walked trees, or Equal panics
    i, m = _f(impl), _f(model)
    if i[0] == "panic" or i[3] == "panic":
        return True
    return m[3] in ("T", "F") and i[3] != m[3] and i[4:] == m[4:]
