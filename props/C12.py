ID = "C12"
LEVEL = "proof"
COQ_TARGETS = ["Props/Properties_C12.vo", "Extract/ExtractServer.vo"]
PROPS_FILES = ["Props/Properties_C12.v"]
RUNS = [dict(name="server", harness="c12", driver="server", model_ml="server_model", timeout=2400)]
EXPLANATION = ("Theorems over all schedules of a small-step model (coq/Server/Server.v) of server.Server.start, the "
               "implementation goroutine, Shutdown and the answerQueue; the model is tied to server/server.go and "
               "server/answer.go by running random histories under testing/synctest and checking that the extracted "
               "model accepts exactly what the instrumented implementation did at every quiescent point.")
TRUSTED = ["model coq/Server/Server.v hand-written from server/server.go and server/answer.go (atomic sections = code "
           "between blocking operations; sync.Mutex, channels and select modelled as the usual primitives)",
           "the trace acceptor ocaml/server_driver.ml (explores all interleavings of internal model steps between two "
           "quiescent points and keeps those matching the observation)"]
MODELLED = ["sync.Mutex / channels / select / context cancellation", "capnp.Promise between Send-mode callers and the "
            "answerQueue (errors seen through an Answer are compared as ok/err only)",
            "the capabilities pipelined calls are delivered to (external: they accept a call and return when told to)"]
ASSUMPTIONS = ["method implementations return after cancellation and call Ack only while running",
               "Shutdown is called at most once (documented precondition; capnp.Client guarantees it, see C10)",
               "pipelined calls are delivered to capabilities other than the server itself"]


def classify(run, case, impl, model):
    f = case.split()
    cfg = "max%s" % (f[1] if len(f) > 1 else "?")
    iv = impl.split()[0] if impl else "?"
    viol = "-"
    for w in impl.split():
        if w.startswith("viol="):
            viol = w[5:]
    m = model.split()
    mv = m[0] if m else "?"
    what = ""
    if mv == "reject":
        what = "/" + "".join(ch for ch in (m[2] if len(m) > 2 else "") if ch.isalpha() or ch == "=")[:12]
    kind = "selfpipe" if ":self" in case.split("|")[0] else "history"
    return "%s/impl=%s/viol=%s/model=%s%s" % (kind, iv, viol, mv, what)


def violates(run, case, impl, model):
    # the harness evaluates the property's predicates on the implementation's own event log
    # (cap, gate, order, exactly-once, queue order / target, shutdown, ReleaseArgs exactly once and no later than
    # the completion: args-not-released / args-released-twice) and reports them in viol=;
    # a hang or a stuck history violates deadlock freedom
    if impl.startswith("hang") or impl.startswith("stuck") or impl.startswith("child-died"):
        return True
    for w in impl.split():
        if w.startswith("viol=") and w != "viol=-":
            return True
    return False


LEVEL_TEXT = ("Proof (all schedules, all MaxConcurrentCalls >= 1 / queue sizes / call sets / caller orders) on the small-step "
              "model: calls holding a slot never exceed MaxConcurrentCalls; gate (at most one started-and-unacknowledged call; "
              "a later call of the same caller is entered only after the earlier ones returned, implementations are seen in "
              "issue order); every call - direct or pipelined - completes at most once and exactly once from its completing "
              "step on; calls queued on a pending answer are processed in queue order, all of them once it returns, each "
              "delivered or failed with the answer's error (or the error of the queued call it was pipelined on), pass-through "
              "and mid-drain calls only after the queue; delivery TARGET (repaired code only, premise p_fixed = true; the "
              "statement is shown to fail for the code before the fix): every delivery goes to the result of the call it was "
              "pipelined on, or to that call's pipeline caller while it is still running - never to another answer; user "
              "Shutdown runs at most once, only when no call holds a slot, cancels running calls, nothing starts after Shutdown "
              "began; ARGUMENTS (C12_args_released_once, code as it is, premise p_relfix = true; shown to fail for the variant "
              "that returns without ReleaseArgs on start's cancelled-while-waiting-for-a-slot branch): on every path of start, "
              "the method goroutine and the answerQueue r.ReleaseArgs() runs at most once per call, exactly once from the "
              "releasing stage on, and has run whenever the call has completed (no later than Returner.Return); "
              "no Go panic is reachable; blocked callers are released when the drain starts; deadlock freedom (a library "
              "step is enabled or the application holds the ball) and per-thread termination measures.")
LEVEL_NOTE = ("ReleaseArgs is observed by the harness only for calls made with Recv / PipelineRecv (the harness supplies "
              "the ReleaseArgs closure); for Send / PipelineSend the library builds the closure itself (printed as ?). In the "
              "model the capability a pipelined call is delivered to releases the arguments when it returns (r.Return / "
              "r.Reject), as the harness targets do; that arbitrary capabilities do so is not part of C12. "
              "Trusted: Coq kernel, extraction, the hand-written model, the trace acceptor, the synctest harness. All theorems "
              "except the three target theorems hold for both code variants (they say nothing about the target). The transform "
              "(pointer path inside the result) is opaque in the model: that the capability at the right PATH is used is checked "
              "by the harness only (fields 0, 1, 257). Known finding: self-pipelining deadlock (result contains the server's own "
              "capability) - outside the model's assumption that pipelined calls are delivered to capabilities independent of the "
              "server; for the same reason returnEmbargoer.Return's calls.Wait() and capnp.Promise's wait for in-flight calls are "
              "not modelled (targets return when told to; covered by the runs with PipelineSend-mode calls). Under-approximation: "
              "when ack and done are both ready start's select is modelled as taking the ack arm (Go picks either; the only "
              "difference is a nil PipelineCaller for an already-returned call). C12_program_order is the caller's program order "
              "built into the model (pred_done); the library content is C12_gate_same_caller / C12_seen_in_order. Partial: "
              "termination measure of the gate wait loop in start (C12_start_measure_partial: no bound on re-waits).")
TECHNIQUE = "Coq proof over a small-step concurrent model (all interleavings) + trace acceptance of synctest histories by the extracted model"
DESIGN_REF = "DESIGN.md section 6, C12"
