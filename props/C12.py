ID = "C12"
LEVEL = "other"
COQ_TARGETS = ["Props/Properties_C12.vo", "Extract/ExtractServer.vo"]
PROPS_FILES = ["Props/Properties_C12.v"]
RUNS = [dict(name="server", harness="c12", driver="server", model_ml="server_model", timeout=2400)]
EXPLANATION = ("Theorems over all schedules of a small-step model (coq/Server/Server.v) of server.Server.start, the "
               "implementation goroutine, Shutdown and the answerQueue; the model is tied to server/server.go and "
               "server/answer.go by running random histories under testing/synctest and checking that the extracted "
               "model accepts exactly what the instrumented implementation did at every quiescent point.")
TRUSTED = ["model coq/Server/Server.v hand-written from server/server.go and server/answer.go (atomic sections = code "
           "between blocking operations; sync.Mutex, channels and select modelled as the usual primitives)",
           "the trace acceptor ocaml/server_driver.ml (explores all interleavings of internal model steps between two "
           "quiescent points and keeps those matching the observation)"]
MODELLED = ["sync.Mutex / channels / select / context cancellation", "capnp.Promise between Send-mode callers and the "
            "answerQueue (errors seen through an Answer are compared as ok/err only)",
            "the capabilities pipelined calls are delivered to (external: they accept a call and return when told to)"]
ASSUMPTIONS = ["method implementations return after cancellation and call Ack only while running",
               "Shutdown is called at most once (documented precondition; capnp.Client guarantees it, see C10)",
               "pipelined calls are delivered to capabilities other than the server itself"]


def classify(run, case, impl, model):
    f = case.split()
    cfg = "max%s" % (f[1] if len(f) > 1 else "?")
    iv = impl.split()[0] if impl else "?"
    viol = "-"
    for w in impl.split():
        if w.startswith("viol="):
            viol = w[5:]
    m = model.split()
    mv = m[0] if m else "?"
    what = ""
    if mv == "reject":
        what = "/" + "".join(ch for ch in (m[2] if len(m) > 2 else "") if ch.isalpha() or ch == "=")[:12]
    return "history/impl=%s/viol=%s/model=%s%s" % (iv, viol, mv, what)


def violates(run, case, impl, model):
    # the harness evaluates the property's predicates on the implementation's own event log
    # (cap, gate, order, exactly-once, queue order / target, shutdown) and reports them in viol=;
    # a hang or a stuck history violates deadlock freedom
    if impl.startswith("hang") or impl.startswith("stuck") or impl.startswith("child-died"):
        return True
    for w in impl.split():
        if w.startswith("viol=") and w != "viol=-":
            return True
    return False


LEVEL_TEXT = ("Proof (all schedules, all MaxConcurrentCalls/queue sizes/call sets) on the small-step model: the set of calls "
              "holding a slot never exceeds MaxConcurrentCalls; at most one call is started-and-unacknowledged and a new "
              "implementation starts only then (gate); user Shutdown runs at most once, only when no call holds a slot, "
              "cancels running calls, and nothing starts after Shutdown began; a direct call completes exactly once. "
              "NOT proved: exactly-once for pipelined calls, queue_order, no_stuck - these are checked on the "
              "implementation's event logs by the correspondence run only.")
LEVEL_NOTE = ("level other: queue_order / no_stuck / pipelined exactly-once have no theorem yet (docs/C12.md). Trusted: Coq "
              "kernel, extraction, the hand-written model, the trace acceptor, the synctest harness.")
TECHNIQUE = "Coq proof over a small-step concurrent model (all interleavings) + trace acceptance of synctest histories by the extracted model"
DESIGN_REF = "DESIGN.md section 6, C12"
