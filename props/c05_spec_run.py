"""C05, run "spec-independent": the extracted specification-level decoder of coq/Spec (written from
the encoding document, sharing nothing with the builder group's model or validator) decodes, in
STRICT mode, the Message.Marshal bytes of messages built through the public API by harness/cmd/c05s
and must reconstruct exactly the tree the harness recorded while writing; strict_valid_message
(coq/Spec/SpecValid.v; soundness: Spec/SpecValidProofs.strict_valid_sound) must say ok.

To wire into props/C05.py:
    import c05_spec_run as sr
    RUNS = RUNS + [sr.RUN]
    COQ_TARGETS = COQ_TARGETS + sr.COQ_TARGETS
    PROPS_FILES = PROPS_FILES + sr.PROPS_FILES          # optional: counts the soundness theorems
    classify = sr.wrap_classify(classify); violates = sr.wrap_violates(violates)
    impl_violation = sr.wrap_impl_violation(impl_violation)   # C05's own predicate parses its own case syntax
"""
NAME = "spec-independent"
RUN = dict(name=NAME, harness="c05s", driver="spec", model_ml="spec_model", driver_args=["c05"])
COQ_TARGETS = ["Extract/ExtractSpec.vo", "Props/Properties_C05_specvalid.vo"]
PROPS_FILES = ["Props/Properties_C05_specvalid.v"]
TRUSTED = ["coq/Spec/Spec.v, SpecValid.v: the author's reading of capnproto.org/encoding.html (independent of the builder "
           "group's BuildValid.v); ocaml/spec_driver.ml splits the Marshal bytes into segments (stream framing, 20 lines)",
           "harness/cmd/c05s: the abstract record of what was written is the random value tree the writer was given"]


def _parts(line):
    t, v = "", ""
    for x in line.split(";"):
        if x[:1] == "T":
            t = x[1:]
        elif x[:1] == "V":
            v = x[1:]
    return t, v


def _node(s, k):
    j = k
    while j > 0 and s[j - 1] not in ",[|(":
        j -= 1
    c = s[j:j + 1]
    return {"0": "null", "E": "err", "F": "fuel", "C": "cap", "S": "struct", "L": "ptrlist", "M": "complist",
            "V": "primlist", "B": "bitlist"}.get(c, "other")


def classify(run, case, impl, model):
    """impl = what the writer recorded (+ 'ok'), model = what the independent decoder found"""
    wt, _ = _parts(impl)
    st, sv = _parts(model)
    if sv != "ok":
        return "spec/verdict=%s" % sv
    if wt != st:
        k = 0
        while k < len(wt) and k < len(st) and wt[k] == st[k]:
            k += 1
        return "spec/tree/written=%s/decoded=%s" % (_node(wt, k), _node(st, k))
    return "spec/other"


def violates(run, case, impl, model):
    # the bytes are the library's output, the expected tree is what was written through the public API:
    # a different decoded tree or a failed strict validity is a violation of the property at this input
    return True


def wrap_classify(prev):
    def f(run, case, impl, model):
        return classify(run, case, impl, model) if run == NAME else prev(run, case, impl, model)
    return f


def wrap_violates(prev):
    def f(run, case, impl, model):
        return violates(run, case, impl, model) if run == NAME else prev(run, case, impl, model)
    return f


def wrap_impl_violation(prev):
    def f(run, case, impl):
        return False if run == NAME else prev(run, case, impl)
    return f
