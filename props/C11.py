ID = "C11"
LEVEL = "proof"
COQ_TARGETS = ["Props/Properties_C11.vo", "Extract/ExtractPromise.vo"]
PROPS_FILES = ["Props/Properties_C11.v"]
VARIANT = "fixed"
RUNS = [dict(name="promise", harness="c11", driver="promise", model_ml="promise_model",
             driver_args=["-variant", VARIANT, "-incfile", "build/run/C11-promise/inconclusive.txt"])]


def post(res, stats_all, all_mism):
    # histories whose set of allowed outcomes could not be computed within the exploration budget: they were
    # checked against the invariants only (see docs/C11.md); the count goes into the evidence
    import os
    p = os.path.join(os.path.dirname(os.path.dirname(os.path.abspath(__file__))), "build", "run", "C11-promise",
                     "inconclusive.txt")
    n = 0
    if os.path.exists(p):
        n = len([l for l in open(p) if l.strip()])
    for k, s in stats_all.items():
        if k.endswith("/gen") or k.endswith("/replay"):
            s["x_inconclusive_explorations"] = n
EXPLANATION = ("Theorems over all operation lists and all interleavings of the small-step model coq/Promise/Promise.v of "
               "answer.go's Promise (explicit mu, the promise states, ongoingCalls/callsStopped, proxy client table, "
               "clientsRefs, the promised client hooks); the model is tied to the code by running the extracted model and the "
               "real Promise on the same histories inside testing/synctest bubbles.")
TRUSTED = ["models coq/Promise/Promise.v and PromiseJoin.v hand-written from answer.go/capability.go; lock acquisition is merged with the "
           "critical section it opens (reduction argued in the file)"]
MODELLED = ["sync.Mutex and channels (usual primitives)", "context cancellation is not modelled (calls use a context that is "
            "not cancelled)", "reference counts of the result capabilities (C10)"]
ASSUMPTIONS = ["the PipelineCaller and the result capabilities return (gated calls are released by the application)",
               "contexts are not cancelled"]


def classify(run, case, impl, model):
    def cls(o):
        if "HANG" in o:
            return "hang"
        if "LEAK" in o or "CRASH" in o:
            return "crash"
        if "stuck=- " not in o:
            return "blocked"
        return "complete"
    # first phase in which the two observations differ
    a, b = impl.split("|"), model.split("|")
    k = 0
    while k < len(a) and k < len(b) and a[k] == b[k]:
        k += 1
    toks = case.split()
    kind = toks[0]
    ops = toks[2:] if kind == "join" else toks[1:]
    op = ops[k][0] if k < len(ops) else "end"
    return "%s/impl=%s/model=%s/at=%s" % (kind, cls(impl), cls(model), op)


def violates(run, case, impl, model):
    # the model is proved to satisfy the property; the implementation's observation breaks the
    # property itself when an operation hangs / stays blocked although the model completes, a call is
    # delivered twice, or a delivery goes elsewhere than the model's (exactly-once destination).
    return True

LEVEL_TEXT = ("Proved for all op lists and all interleavings. Single-promise model: resolve_once, pipelined_exactly_once, client_idempotent, no_stuck, waiters_released, proxy_clients_resolved_and_released, result_read_alive. Model with Join (joined chains, any number of promises): pipelined_exactly_once (count, caller only before resolution, destination = result of the end of the chain reached from the call's receiver), resolve_once per promise, mutex discipline and mu free at rest, forest invariant, no deadlock on the mutexes, no_stuck at rest (a call is held in a PipelineCaller, or every unfinished operation is blocked on a promise that depends, along next edges and Joins in progress, on a promise nobody asked to resolve; neither Fulfill nor ReleaseClients waits forever for a proxy hook), waiters_released per chain and waiters_enabled, proxy_clients_resolved_and_released (every proxy on a chain ending at a resolved promise has that resolution at its path; every proxy is in a table, in the loop of the ReleaseClients that took it, or released), client_idempotent (same proxy while the end promise is unchanged and unresolved), client-table reference conservation and per-chain release. Refuted: F11, resolve deadlock, result lifetime, F11c, seeded C11-3 and C11-r2-1, self-join and cyclic join. Model tied to answer.go by synctest histories (sequenced, with Join, launch groups checked against the explored outcome set).")
LEVEL_NOTE = "Premises of the chain theorems (C11_join_premises_satisfiable shows they hold together): jv_close_joined, jv_alloc_table (and jv_refs_sum for the release accounting) = the code as it is, each switched-off variant is refuted and detected on the patched code; join_ordered = precondition of Promise.Join (a promise only joins promises of lower index; self-join and cyclic joins are refuted; all harness generators respect it). Partial: only the relation between the two models (C11_join_zero_joins_inert_partial: with zero Joins the Join-specific state is inert; no step-by-step simulation). On chains the 'same proxy' part of client_idempotent is stated for calls that ended at the same, still unresolved promise (across a Join the code itself returns the other promise's proxy; both resolve to the same capability). Limits of the statements: no_stuck (both models) is deadlock freedom at rest, there is no termination measure / no-livelock theorem (the loops are finite by C11_join_forest, not stated); single-promise pipelined_exactly_once has the destination clause for PipelineSend calls only (calls through a returned client: count and wf_log; the chain theorem has it for both); calls through an already resolved or released client (JEDirect) are only counted; in the Join model Go's map iteration order is the table's insertion order, and a nil channel field proceeds (wait states are entered only when it was open); join_ordered is a numbering condition, met by any acyclic Join graph up to renumbering (not proved); context cancellation is not modelled. See docs/C11.md."
TECHNIQUE = "Coq proof over an executable small-step model + extracted-model/implementation differential run under synctest"
DESIGN_REF = "DESIGN.md section 6, C11"
