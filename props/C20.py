ID = "C20"
LEVEL = "proof"
COQ_TARGETS = ["Props/Properties_C20.vo", "Extract/ExtractText.vo"]
PROPS_FILES = ["Props/Properties_C20.v"]
RUNS = [
    dict(name="quote", harness="c20", driver="text", model_ml="text_model", harness_args=["-part", "quote"]),
    dict(name="render", harness="c20", driver="text", model_ml="text_model", harness_args=["-part", "render"]),
    dict(name="history", harness="c20", driver="text", model_ml="text_model", harness_args=["-part", "history"]),
]


def generate(res):
    """The harness module cannot import /repo's internal/aircraftlib: the generated file is copied
    (write-if-changed) next to the harness before it is built, so that the accessors used are the
    repository's current ones."""
    import os, sys
    sys.path.insert(0, os.path.join(os.path.dirname(os.path.abspath(__file__)), "..", "lib"))
    import vcheck
    src = open(os.path.join(vcheck.REPO, "internal", "aircraftlib", "aircraft.capnp.go")).read()
    dst = os.path.join(vcheck.VERIF, "harness", "cmd", "c20", "aircraftlib", "aircraft.capnp.go")
    changed = vcheck.write_if_changed(dst, src)
    return ["harness/cmd/c20/aircraftlib/aircraft.capnp.go copied from /repo/internal/aircraftlib (%s)"
            % ("updated" if changed else "unchanged")]

EXPLANATION = ("Theorems over all byte strings / schemas / values / encode counts about Gallina models of "
               "internal/strquote (Append), encoding/text (marshalStruct & co.) and the nodemap cache, against an "
               "independent reader of the Cap'n Proto text format (TextSpec); the models are tied to the code by "
               "running the extracted model, the extracted reader and the implementation on the same inputs.")
TRUSTED = ["models coq/Text/Strquote.v, coq/Text/TextM.v hand-written from internal/strquote/strquote.go, "
           "encoding/text/marshal.go, list.go String methods, internal/nodemap/nodemap.go"]
MODELLED = ["strconv.AppendFloat 'g' formatting (floats are opaque tokens, never compared as numbers)",
            "strconv.AppendInt/AppendUint (modelled by Coq's decimal printer)"]
ASSUMPTIONS = ["bytes are 0..255"]


def _unhex(h):
    return b"" if h == "-" else bytes.fromhex(h)


def classify(run, case, impl, model):
    op = case.split()[0]
    i, m = impl.split(), model.split()
    if op == "quote":
        if len(i) < 3 or i[0] != "ok":
            return "quote/impl=%s" % i[0]
        if len(m) >= 3 and i[2] != m[2]:
            return "quote/readback-differs"
        return "quote/literal-differs"
    return "%s/impl=%s/model=%s" % (op, i[0], m[0])


def violates(run, case, impl, model):
    op = case.split()[0]
    i, m = impl.split(), model.split()
    if op == "quote":
        if len(i) < 3 or i[0] != "ok":
            return True                      # Append panicked
        if len(m) >= 3 and i[2] != m[2]:
            return True                      # the reference reader does not get the string back
        lit = _unhex(i[1])
        return any(c < 32 or c >= 127 for c in lit)   # not printable ASCII
    return True


LEVEL_TEXT = "todo"
LEVEL_NOTE = "todo"
TECHNIQUE = "Coq proof over an executable model + extracted-model/implementation differential run"
DESIGN_REF = "DESIGN.md section 6, C20"
