ID = "C20"
LEVEL = "proof"
COQ_TARGETS = ["Props/Properties_C20.vo", "Extract/ExtractText.vo"]
PROPS_FILES = ["Props/Properties_C20.v"]
RUNS = [
    dict(name="quote", harness="c20", driver="text", model_ml="text_model", harness_args=["-part", "quote"]),
    dict(name="render", harness="c20", driver="text", model_ml="text_model", harness_args=["-part", "render"]),
    dict(name="history", harness="c20", driver="text", model_ml="text_model", harness_args=["-part", "history"]),
    dict(name="hostile", harness="c20", driver="text", model_ml="text_model", harness_args=["-part", "hostile"]),
]


def generate(res):
    """The harness module cannot import /repo's internal/aircraftlib: the generated file is copied
    (write-if-changed) next to the harness before it is built, so that the accessors used are the
    repository's current ones."""
    import os, sys
    sys.path.insert(0, os.path.join(os.path.dirname(os.path.abspath(__file__)), "..", "lib"))
    import vcheck
    src = open(os.path.join(vcheck.REPO, "internal", "aircraftlib", "aircraft.capnp.go")).read()
    dst = os.path.join(vcheck.VERIF, "harness", "cmd", "c20", "aircraftlib", "aircraft.capnp.go")
    changed = vcheck.write_if_changed(dst, src)
    return ["harness/cmd/c20/aircraftlib/aircraft.capnp.go copied from /repo/internal/aircraftlib (%s)"
            % ("updated" if changed else "unchanged")]

EXPLANATION = ("Theorems over all byte strings / schemas / values / encode counts about Gallina models of "
               "internal/strquote (Append), encoding/text (marshalStruct & co.) and the nodemap cache, against an "
               "independent reader of the Cap'n Proto text format (TextSpec); the models are tied to the code by "
               "running the extracted model, the extracted reader and the implementation on the same inputs.")
TRUSTED = ["models coq/Text/Strquote.v, coq/Text/TextM.v hand-written from internal/strquote/strquote.go, "
           "encoding/text/marshal.go, list.go String methods, internal/nodemap/nodemap.go"]
MODELLED = ["strconv.AppendFloat 'g' formatting (floats are opaque tokens, never compared as numbers)",
            "strconv.AppendInt/AppendUint (modelled by Coq's decimal printer)"]
ASSUMPTIONS = ["bytes are 0..255", "schema: field and enumerant names are identifiers, enumerants are not true/false/void, "
               "code orders are a permutation, all nodes of one schema file (one cached message)",
               "slot offsets < 2^29 (no uint32 wrap in DataOffset(off*size))"]


def _unhex(h):
    return b"" if h == "-" else bytes.fromhex(h)


def _reg_used_differs(words):
    """reghist observation 'ok used=A,fresh=B;used=..': is some A different from its B?"""
    if len(words) < 2:
        return False
    for step in words[1].split(";"):
        used, _, fresh = step.partition(",")
        if used[len("used="):] != fresh[len("fresh="):]:
            return True
    return False


def classify(run, case, impl, model):
    op = case.split()[0]
    i, m = impl.split(), model.split()
    if op == "quote":
        if len(i) < 3 or i[0] != "ok":
            return "quote/impl=%s" % i[0]
        if len(m) >= 3 and i[2] != m[2]:
            return "quote/readback-differs"
        return "quote/literal-differs"
    if op == "liststr":
        if i[0] != "ok" or m[0] != "ok" or len(i) < 3 or len(m) < 3:
            return "list-string/impl=%s/model=%s" % (i[0], m[0])
        if i[2] != m[2]:
            return "list-string/readback-differs-from-accessors"
        return "list-string/text-differs-from-model"
    if op == "render":
        if i[0] != "ok" or m[0] != "ok" or len(i) < 3 or len(m) < 3:
            return "render/impl=%s/model=%s" % (i[0], m[0])
        if i[2] != "-" and i[2] != m[2]:
            return "render/readback-differs-from-accessors"
        return "render/text-differs-from-model"
    if op == "history":
        if i[0] != "ok" or m[0] != "ok" or len(i) < 5 or len(m) < 5:
            return "history/impl=%s/model=%s" % (i[0], m[0])
        if i[2] != m[2]:
            return "history/output-changes"
        if i[1] != m[1]:
            return "history/text-differs-from-model"
        return "history/budget-differs"
    if op == "reghist":
        if i[0] != "ok":
            return "encoder-history/%s" % i[0]
        if _reg_used_differs(i):
            return "encoder-history/used-differs-from-fresh"
        return "encoder-history/differs-from-model"
    if op == "hostile":
        return "hostile/%s" % i[0]
    if op == "recrender":
        if i[0] != "ok":
            return "recursive-type/%s" % i[0]
        if len(i) >= 3 and len(m) >= 3 and i[2] != m[2]:
            return "recursive-type/readback-differs"
        return "recursive-type/text-differs-from-model"
    return "%s/impl=%s/model=%s" % (op, i[0], m[0])


def impl_violation(run, case, impl):
    """Property predicate on the implementation alone (evaluated on every case): rendering a
    hostile message or a value of a recursive type must return (text or error) - no panic, no
    crash, no hang - with output within the bound derived from the traversal limit."""
    op = case.split()[0]
    w = impl.split()[0] if impl else ""
    if op == "hostile":
        return w != "safe"
    if op == "recrender":
        return w in ("crash", "panic", "hang")
    if op in ("render", "history", "liststr"):
        return w in ("panic", "hang")
    if op == "reghist":
        return w != "ok" or classify(run, case, impl, impl) == "encoder-history/used-differs-from-fresh"
    return False


def violates(run, case, impl, model):
    """Does the implementation's behaviour on this case break the property (as opposed to merely
    differing from the model)?"""
    op = case.split()[0]
    i, m = impl.split(), model.split()
    if op == "quote":
        if len(i) < 3 or i[0] != "ok":
            return True                      # Append panicked
        if len(m) >= 3 and i[2] != m[2]:
            return True                      # the reference reader does not get the string back
        lit = _unhex(i[1])
        return any(c < 32 or c >= 127 for c in lit)   # not printable ASCII
    if op == "append":
        return True                          # the destination prefix was not kept / literal differs
    if op == "liststr":
        if i[0] != "ok":
            return True
        return len(i) >= 3 and len(m) >= 3 and i[2] != m[2]   # String() does not read back to the At(i) values
    if op == "render":
        if i[0] != "ok":
            return True                      # Marshal failed or panicked on a well-typed value
        if len(i) >= 3 and len(m) >= 3 and i[2] != "-" and i[2] != m[2]:
            return True                      # text does not read back to the accessors' values
        return False                         # reads back correctly but is not the model's text: tie broken
    if op == "history":
        if i[0] != "ok":
            return True
        same = i[2].split("=")[1].split("/")
        return same[0] != same[1]            # some later Encode differed from the first or failed
    if op == "reghist":
        if i[0] != "ok":
            return True
        # an Encode on the encoder with the history differs from a fresh encoder on the same registry
        return classify(run, case, impl, model) == "encoder-history/used-differs-from-fresh"
    if op == "hostile":
        return True                          # panic / hang / output beyond the bound
    if op == "recrender":
        if i[0] != "ok":
            return True                      # crash (stack overflow), panic or error on a valid value
        return len(i) >= 3 and len(m) >= 3 and i[2] != m[2]
    return True


LEVEL_TEXT = ("Proof: for all byte strings the literal written by strquote.Append is read back by an independent literal "
              "reader as exactly that string, is printable ASCII, has no bare quote/backslash, and is injective; the "
              "reader inverts the printer on all float-free value trees; for all float-free schemas, stored values and "
              "encoder states the text of Encode reads back as exactly the field values the walk shows; for all "
              "histories of Encode calls on one encoder the next Encode writes what a fresh encoder writes. The models "
              "are tied to strquote, encoding/text, list.go and nodemap by differential runs (extracted OCaml vs the "
              "Go code, incl. the exact remaining budget of the cached schema message).")
LEVEL_NOTE = ("C01/C02 clause for the renderer (round 2): hostile-message and recursive-type runs with impl_violation; totality "
              "of the walk is proved only for structs without struct/list/group fields (C20_render_total_flat_partial, an "
              "extra theorem outside C20's own statement); the pre-fix divergence is render_total_refuted. "
              "Trusted: Coq kernel, extraction, harness; the models are hand-written. Floats are opaque tokens (strconv 'g' "
              "not modelled; parse_render is stated for float-free schemas, history independence for all). Decimal "
              "printing is Coq's Z.to_int. The value message's own traversal budget is reset by the harness before "
              "every Encode (not the subject of C20).")
TECHNIQUE = "Coq proof over an executable model + extracted-model/implementation differential run"
DESIGN_REF = "DESIGN.md section 6, C20"

# ---- L0b: kernel-checked agreement of the arithmetic this property's model restates with the
# ---- Go source (coq/Gen/GoArith2.v is regenerated by gotrans on every run; see docs/gotrans.md)
import l0_common as _l0
COQ_TARGETS = list(COQ_TARGETS) + _l0.COQ_TARGETS2_BY_OWNER["C20"]
EXTRA_OBLIGATIONS = list(globals().get("EXTRA_OBLIGATIONS", [])) + _l0.EXTRA_OBLIGATIONS2_BY_OWNER["C20"]
_l0_prev_generate = globals().get("generate")


def generate(res):
    notes = list(_l0_prev_generate(res) or []) if (_l0_prev_generate and _l0_prev_generate is not _l0.generate) else []
    return notes + list(_l0.generate(res) or [])
