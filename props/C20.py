ID = "C20"
LEVEL = "proof"
COQ_TARGETS = ["Props/Properties_C20.vo", "Props/Properties_C20_total.vo", "Extract/ExtractText.vo"]
PROPS_FILES = ["Props/Properties_C20.v", "Props/Properties_C20_total.v"]
RUNS = [
    dict(name="quote", harness="c20", driver="text", model_ml="text_model", harness_args=["-part", "quote"]),
    dict(name="render", harness="c20", driver="text", model_ml="text_model", harness_args=["-part", "render"]),
    dict(name="history", harness="c20", driver="text", model_ml="text_model", harness_args=["-part", "history"]),
    dict(name="hostile", harness="c20", driver="text", model_ml="text_model", harness_args=["-part", "hostile"]),
]


def generate(res):
    """The harness module cannot import /repo's internal/aircraftlib: the generated file is copied
    (write-if-changed) next to the harness before it is built, so that the accessors used are the
    repository's current ones."""
    import os, sys
    sys.path.insert(0, os.path.join(os.path.dirname(os.path.abspath(__file__)), "..", "lib"))
    import vcheck
    src = open(os.path.join(vcheck.REPO, "internal", "aircraftlib", "aircraft.capnp.go")).read()
    dst = os.path.join(vcheck.VERIF, "harness", "cmd", "c20", "aircraftlib", "aircraft.capnp.go")
    changed = vcheck.write_if_changed(dst, src)
    return ["harness/cmd/c20/aircraftlib/aircraft.capnp.go copied from /repo/internal/aircraftlib (%s)"
            % ("updated" if changed else "unchanged")]

EXPLANATION = ("Theorems over all byte strings / schemas / values / encode counts about Gallina models of "
               "internal/strquote (Append), encoding/text (marshalStruct & co.) and the nodemap cache, against an "
               "independent reader of the Cap'n Proto text format (TextSpec); the models are tied to the code by "
               "running the extracted model, the extracted reader and the implementation on the same inputs.")
TRUSTED = ["models coq/Text/Strquote.v, coq/Text/TextM.v hand-written from internal/strquote/strquote.go, "
           "encoding/text/marshal.go, list.go String methods, internal/nodemap/nodemap.go"]
MODELLED = ["strconv.AppendFloat 'g' formatting (floats are opaque tokens, never compared as numbers)",
            "strconv.AppendInt/AppendUint (modelled by Coq's decimal printer)"]
ASSUMPTIONS = ["bytes are 0..255", "schema: field and enumerant names are identifiers, enumerants are not true/false/void, "
               "code orders are a permutation, all nodes of one schema file (one cached message)",
               "slot offsets < 2^29 (no uint32 wrap in DataOffset(off*size))"]


def _unhex(h):
    return b"" if h == "-" else bytes.fromhex(h)


def _reg_used_differs(words):
    """reghist observation 'ok used=A,fresh=B;used=..': is some A different from its B?"""
    if len(words) < 2:
        return False
    for step in words[1].split(";"):
        used, _, fresh = step.partition(",")
        if used[len("used="):] != fresh[len("fresh="):]:
            return True
    return False


def classify(run, case, impl, model):
    op = case.split()[0]
    i, m = impl.split(), model.split()
    if op == "quote":
        if len(i) < 3 or i[0] != "ok":
            return "quote/impl=%s" % i[0]
        if len(m) >= 3 and i[2] != m[2]:
            return "quote/readback-differs"
        return "quote/literal-differs"
    if op == "liststr":
        if i[0] != "ok" or m[0] != "ok" or len(i) < 3 or len(m) < 3:
            return "list-string/impl=%s/model=%s" % (i[0], m[0])
        if i[2] != m[2]:
            return "list-string/readback-differs-from-accessors"
        return "list-string/text-differs-from-model"
    if op == "render":
        if i[0] != "ok" or m[0] != "ok" or len(i) < 3 or len(m) < 3:
            return "render/impl=%s/model=%s" % (i[0], m[0])
        if i[2] != "-" and i[2] != m[2]:
            return "render/readback-differs-from-accessors"
        return "render/text-differs-from-model"
    if op == "history":
        if i[0] != "ok" or m[0] != "ok" or len(i) < 5 or len(m) < 5:
            return "history/impl=%s/model=%s" % (i[0], m[0])
        if i[2] != m[2]:
            return "history/output-changes"
        if i[1] != m[1]:
            return "history/text-differs-from-model"
        return "history/budget-differs"
    if op == "reghist":
        if i[0] != "ok":
            return "encoder-history/%s" % i[0]
        if _reg_used_differs(i):
            return "encoder-history/used-differs-from-fresh"
        return "encoder-history/differs-from-model"
    if op == "hostile":
        return "hostile/%s" % i[0]
    if op == "recrender":
        if i[0] != "ok":
            return "recursive-type/%s" % i[0]
        if len(i) >= 3 and len(m) >= 3 and i[2] != m[2]:
            return "recursive-type/readback-differs"
        return "recursive-type/text-differs-from-model"
    return "%s/impl=%s/model=%s" % (op, i[0], m[0])


def impl_violation(run, case, impl):
    """Property predicate on the implementation alone (evaluated on every case): rendering a
    hostile message or a value of a recursive type must return (text or error) - no panic, no
    crash, no hang - with output within the bound derived from the traversal limit."""
    op = case.split()[0]
    w = impl.split()[0] if impl else ""
    if op == "hostile":
        return w != "safe"
    if op == "recrender":
        return w in ("crash", "panic", "hang")
    if op in ("render", "history", "liststr"):
        return w in ("panic", "hang")
    if op == "reghist":
        return w != "ok" or classify(run, case, impl, impl) == "encoder-history/used-differs-from-fresh"
    return False


def violates(run, case, impl, model):
    """Does the implementation's behaviour on this case break the property (as opposed to merely
    differing from the model)?"""
    op = case.split()[0]
    i, m = impl.split(), model.split()
    if op == "quote":
        if len(i) < 3 or i[0] != "ok":
            return True                      # Append panicked
        if len(m) >= 3 and i[2] != m[2]:
            return True                      # the reference reader does not get the string back
        lit = _unhex(i[1])
        return any(c < 32 or c >= 127 for c in lit)   # not printable ASCII
    if op == "append":
        return True                          # the destination prefix was not kept / literal differs
    if op == "liststr":
        if i[0] != "ok":
            return True
        return len(i) >= 3 and len(m) >= 3 and i[2] != m[2]   # String() does not read back to the At(i) values
    if op == "render":
        if i[0] != "ok":
            return True                      # Marshal failed or panicked on a well-typed value
        if len(i) >= 3 and len(m) >= 3 and i[2] != "-" and i[2] != m[2]:
            return True                      # text does not read back to the accessors' values
        return False                         # reads back correctly but is not the model's text: tie broken
    if op == "history":
        if i[0] != "ok":
            return True
        same = i[2].split("=")[1].split("/")
        return same[0] != same[1]            # some later Encode differed from the first or failed
    if op == "reghist":
        if i[0] != "ok":
            return True
        # an Encode on the encoder with the history differs from a fresh encoder on the same registry
        return classify(run, case, impl, model) == "encoder-history/used-differs-from-fresh"
    if op == "hostile":
        return True                          # panic / hang / output beyond the bound
    if op == "recrender":
        if i[0] != "ok":
            return True                      # crash (stack overflow), panic or error on a valid value
        return len(i) >= 3 and len(m) >= 3 and i[2] != m[2]
    return True


LEVEL_TEXT = ("Proof (Coq, closed under the global context) about hand-written models of strquote.Append, encoding/text "
              "(marshalStruct/FieldValue/List/Enum, EncodeList), the typed lists' String() and the nodemap cache: for ALL byte "
              "strings the literal is read back by an independent reader as that string, is printable ASCII, has no bare "
              "quote/backslash, is injective; the reader inverts the printer on all float-free value trees; for all "
              "FLOAT-FREE schemas with identifier names, all stored values (wrong-kind pointers, out-of-range ordinals, "
              "upgraded lists included) and all encoder states, IF Encode succeeds its text reads back as exactly the field "
              "values the walk shows (parse_render, parse_encode_any_state); every slot is shown as the value its generated "
              "accessor returns, over an accessor specification written from the capnpc-go templates "
              "(slot_value_eq_accessor, shown_struct_via_accessors); after ANY history of Encode / EncodeList / UseRegistry "
              "calls on one encoder, Encode and EncodeList write what a fresh encoder on the current registry writes. "
              "Scope: one cached schema message per encoder (all types in one schema file); statements about text are "
              "conditional on success; totality (C20_render_total_partial, C20_encode_total_partial): for all schemas with acyclic "
              "groups whose list-typed slots have pointer-free defaults - nested structs, lists of lists, groups, unions, "
              "recursive and mutually recursive types - and ALL stored values, fuel >= (depth v + |SS|*(DD+1))*(G+2)+G+1 "
              "gives text or an enumerated error, never OutOfFuel (C20_render_faithful_total_partial: then the text reads "
              "back). Whole output (C20_output_printable, C20_output_quotes_balanced; print level incl. float tokens): every "
              "byte is printable ASCII and every quote belongs to a literal produced by the quoting function. "
              "The models are tied to the Go code by differential runs (extracted OCaml vs Go, byte for byte, incl. the exact "
              "remaining budget of the cached schema message) and the text is compared with the GENERATED accessors of "
              "aircraftlib on well-kinded, wrong-kinded, upgraded and hostile inputs.")
LEVEL_NOTE = ("Gaps, in plain words. (1) 'Same field values as the generated accessors': proved against the accessor "
              "specification `accessor` of TextM.v (Ptr.*Default semantics, wrong-kind pointers fall back to the default); that "
              "specification is NOT linked by a theorem to C15's Layout.gen_getter or C19's PogsM.gen_getter - the link to the "
              "real generated code is the differential run only. The Go code violated this clause for wrong-kind pointers with "
              "defaults until fix cdd3c4b (as-found variant: shows_accessor_value_refuted). (2) Floats: strconv 'g' is an "
              "oracle; parse_render excludes float types; history independence holds for all types. (3) 'Well-formed text' "
              "for the whole output is the statement that it parses with TextSpec.parse_text (float-free fragment); "
              "printable ASCII and the quote structure of the WHOLE output are now theorems (C20_output_printable, "
              "C20_output_quotes_balanced) for float-free schemas with identifier names; with floats only at print level under "
              "the premise that float tokens are printable non-quote bytes. (4) Totality: C20_render_total_partial covers "
              "nested / recursive / mutually recursive types with an explicit fuel bound, but (a) requires list-typed slots to "
              "have pointer-free defaults - for struct elements a premise is necessary: C20_render_listdefault_refuted shows "
              "struct L { l :List(L) = [()] } diverges on the fixed model; marshal.go has no guard in its list-default branch, "
              "so this is a probable stack overflow of the Go code that was NOT reproduced on the real code; (b) the inputs "
              "giving Err are described in docs/C20.md but not characterised by theorem, so the unconditional parse_render "
              "(C20_render_faithful_total_partial) keeps an error alternative. (5) A failed "
              "schema read is Err in the model where Go may drop the error and write truncated text (unreachable under the "
              "fixed cache: budget reset to 2^64-1 at every lookup). (6) Decimal printing is Coq's Z.to_int. (7) The value "
              "message's own traversal budget is reset by the harness before every Encode. "
              "Trusted: Coq kernel, extraction, harness, hand-written models.")
TECHNIQUE = "Coq proof over an executable model + extracted-model/implementation differential run"
DESIGN_REF = "DESIGN.md section 6, C20"

# ---- L0b: kernel-checked agreement of the arithmetic this property's model restates with the
# ---- Go source (coq/Gen/GoArith2.v is regenerated by gotrans on every run; see docs/gotrans.md)
import l0_common as _l0
COQ_TARGETS = list(COQ_TARGETS) + _l0.COQ_TARGETS2_BY_OWNER["C20"]
EXTRA_OBLIGATIONS = list(globals().get("EXTRA_OBLIGATIONS", [])) + _l0.EXTRA_OBLIGATIONS2_BY_OWNER["C20"]
_l0_prev_generate = globals().get("generate")


def generate(res):
    notes = list(_l0_prev_generate(res) or []) if (_l0_prev_generate and _l0_prev_generate is not _l0.generate) else []
    return notes + list(_l0.generate(res) or [])
