import os

import l0_common

ID = "C14"
LEVEL = "proof"
generate = l0_common.generate   # regenerates coq/Gen/GoArith.v from ../repo (Size.times is used by segmentSize)
COQ_TARGETS = ["Props/Properties_C14.vo", "Props/Properties_C14b.vo", "Extract/ExtractFrame.vo"]
PROPS_FILES = ["Props/Properties_C14.v", "Props/Properties_C14b.v"]
RUNS = [dict(name="frame", harness="c14", driver="frame", model_ml="frame_model")]
EXPLANATION = ("Theorems over all message lists / all byte strings / all chunkings / all decoder states about the Gallina "
               "model of the stream framing in message.go (Marshal, Unmarshal, Encoder.Encode, Decoder.Decode with "
               "MaxMessageSize, the segment-count limit, ReuseBuffer and an allocation log, io.ReadFull over chunked "
               "readers); the model is tied to the code by running the extracted model and the real "
               "Encoder/Decoder/Marshal/Unmarshal on the same inputs and call histories (results, error class = which "
               "check fired, len/cap of segments, cap of the decoder's buffers through a verif hook, allocation predicate "
               "from runtime.MemStats).")
TRUSTED = ["model coq/Frame/Frame.v + coq/Frame/FramePacked.v hand-written from message.go (+ Size.times of address.go, "
           "proved equal to the translated go_times); io.ReadFull and the io.Reader contract are modelled (chunk list + "
           "final error; for the packed path the C13 model of packed.Reader.Read); errors are classified by the fixed "
           "message of the check that fired (the library exposes nothing else) and io.EOF by identity",
           "bufio.Reader is not modelled: its two answers to packed.Reader (Buffered() >= 9 / < 9) are oracles, the packed "
           "theorems quantify over all oracles, the correspondence run fixes them to false",
           "gotrans (translator of Size.times into coq/Gen/GoArith.v; its own translation validation belongs to the L0 check)"]
MODELLED = ["io.ReadFull / io.Reader (chunk list, final error)", "Go allocator (only the sizes requested by make are modelled)",
            "bufio.Reader and packed.Reader (through the C13 model)", "net.Buffers.WriteTo in Encoder.write (modelled as "
            "writing the concatenation)"]
ASSUMPTIONS = ["bytes are 0..255; int is 64 bit; MaxMessageSize is a uint64",
               "Unmarshal of a header with maxSeg = 2^32-1 (>= 16 GiB of input): Go's int(maxSeg+1) wraps in uint32 to 0 and "
               "demuxArena returns 0 segments; Frame.v's demux_arena does not wrap (iterates 2^32 times): for such inputs "
               "C14_unmarshal_safe / C14_unmarshal_alloc_linear are about the model only (they remain true of the code: no "
               "panic, 0 bytes)",
               "decode_encode_stream / cut_is_error and the packed counterparts: every message has 1..512 segments and its frame fits MaxMessageSize "
               "(otherwise the decoder refuses it, which alloc_bound covers)",
               "unmarshal_roundtrip: at most 2^30-1 segments (uint32 wrap of the table index beyond, observation O3)"]


def classify(run, case, impl, model):
    op = case.split()[0]

    def k(o):
        p = o.split(":")
        return p[0] + ("/" + p[1] if p[0] == "err" and len(p) > 1 else "")

    if op in ("decode", "decodex"):
        fi, fm = impl.split(), model.split()
        for a, b in zip(fi, fm):
            if a != b:
                if k(a) == k(b):
                    # same outcome kind: which field differs (segments, caps, alloc predicate)
                    pa, pb = a.split(":"), b.split(":")
                    d = [str(i) for i in range(min(len(pa), len(pb))) if pa[i] != pb[i]]
                    fa = [x for x in pa if x in ("A0", "A1", "c0", "c1")]
                    return "%s/impl=%s/model=%s/field=%s/%s" % (op, k(a), k(b), "+".join(d), "".join(fa))
                return "%s/impl=%s/model=%s" % (op, k(a), k(b))
        return op + "/length"
    fi, fm = impl.split(), model.split()

    def k2(f):
        return f[0] + ("/" + f[1] if f and f[0] == "err" and len(f) > 1 else "") if f else "empty"
    return "%s/impl=%s/model=%s" % (op, k2(fi), k2(fm))


def violates(run, case, impl, model):
    # the model is proved to satisfy the property on every input, and every observable compared
    # (messages returned, error kind, EOF vs error, buffers held, allocation predicate) is one the
    # property speaks about: a disagreement is a violation at this input
    return True


def post(res, stats, mismatches):
    # the harness records the case it is about to run (hostile headers); if it died (out of memory,
    # runtime fatal error) that case is the failing input
    import vcheck
    p = os.path.join(vcheck.BUILD, "run", "C14-frame", "current_case.txt")
    if "frame/gen" not in stats and "frame/replay" not in stats and os.path.exists(p):
        line = open(p).read().strip()
        if line:
            rp = vcheck.write_replay("C14", res.seed, "harness_died",
                                     "# the harness process died while running this case (memory guard / fatal error):\n"
                                     "# the decoder must not allocate beyond MaxMessageSize for any header\n" + line + "\n")
            res.violation(rp)


LEVEL_TEXT = ("Proof: for all message lists, all chunkings of the byte stream, with the reuse flag on or off and for any "
              "buffer CAPACITIES, Decode returns the messages Encode wrote, in order, then io.EOF; a stream ending strictly "
              "inside a frame yields an error, never io.EOF (every cut point is a boundary or inside one frame); for all "
              "input bytes and decoder states one Decode requests at most MaxMessageSize bytes of buffers, accepts at "
              "most 512 segments and never panics, also over whole Decode/ReuseBuffer histories; Unmarshal(Marshal x)=x, "
              "Unmarshal never panics; its allocation is a DECLARED cost function (24 bytes per returned segment, not "
              "an allocation log) and is <= 6 bytes per input byte. ReuseBuffer at the level of buffer contents "
              "(FrameReuse.v: stale bytes of d.hdrbuf/d.buf, segments as slices, the reused Message and its segment "
              "cache, Message.Reset): every Decode/read-segments history from any previous buffer contents and any "
              "cache state returns what the capacities-only decoder returns, hence what Decode without reuse returns. "
              "ReuseBuffer is transparent on EVERY byte stream (C14_reuse_transparent_all_streams, one theorem, generic in "
              "the reader: arbitrary bytes, any chunking, empty reads, any final reader error delivered with the last bytes "
              "or later, packed.Reader in any state with any oracle; any MaxMessageSize, also re-assigned during the "
              "history; any buffer capacities; ReuseBuffer() called at any points; every history length): the outcomes of "
              "the Decode calls, message contents included, equal those of the same history without any ReuseBuffer(); "
              "C14_reuse_content_transparent carries this to the content-level model. Whole Decode histories on the plain "
              "path: on ANY stream, after io.EOF or a read error every later Decode returns io.EOF (C14_decode_end_sticky), "
              "io.EOF is returned only when the earlier calls consumed the whole stream (C14_decode_eof_only_exhausted); "
              "the Decoder keeps no error state, after an error of another class it goes on parsing "
              "(C14_decode_not_sticky); for a stream = acceptable frames ++ ANY rest and every history length: the "
              "messages, then io.EOF iff rest is empty (and the reader ends with io.EOF), a read error when rest is a strict "
              "prefix of an acceptable frame, then io.EOF for ever (C14_decode_history_characterised_partial). Packed paths (composition with C13, for "
              "every bufio oracle): UnmarshalPacked(MarshalPacked x)=x; NewPackedDecoder returns what NewPackedEncoder "
              "wrote, then io.EOF; for ANY packed input the decoder returns exactly the whole frames of what packed.Reader "
              "hands out (fst (unpack_partial P)) and then an error, never io.EOF, when the input does not unpack or ends "
              "inside a frame; all serialisation paths return the "
              "same segments (all_paths_same_segments). The model is tied to message.go by a differential run on message "
              "sequences, every/random cut points, hostile headers, MaxMessageSize values, reuse histories, chunk sizes "
              "1..17/4096, packed and unpacked, and Size.times by the translator.")
LEVEL_NOTE = ("The content-level reuse model (FrameReuse.v) is tied to the code only through its refinement theorem to the "
              "capacities model, which is the one run against the implementation (the harness does not observe a retained "
              "message across the next Decode). C14_decode_history_characterised_partial is PARTIAL: when what follows "
              "the acceptable frames is neither empty, nor a prefix of an acceptable frame, nor starts with a canonical "
              "frame (a header that breaks a limit, or a frame whose header padding word is not zero, which the decoder "
              "accepts without looking at the padding) only 'not io.EOF' and 'io.EOF for ever after a read error' are "
              "proved; the converse 'a returned message means the stream holds one of its wire frames' is not proved, so "
              "'exactly the frames of the longest parsable prefix' is not one theorem. Aliasing of a returned message with d.buf across the NEXT Decode (documented Go "
              "behaviour) is modelled (slices) but nothing is claimed about reading a message after the next Decode. "
              "Trusted: Coq kernel, extraction, harness; the models are hand-written (coq/Frame/Frame.v, FramePacked.v). "
              "On the packed path, about Decode calls made after the first outcome that is not a message only the reuse "
              "transparency is proved (C14_reuse_transparent_all_streams holds for packed.Reader in any state); the "
              "end-sticky / io.EOF-only-when-exhausted theorems are for the plain reader only. "
              "Two defects found and fixed "
              "(Encode accepted unaligned segments; Decode accepted 513 segments); observation O3 (uint32 wrap of the "
              "table index for >= 2^30 segments, unreachable below 4 GiB of input) is stated as a theorem about the model.")
TECHNIQUE = "Coq proof over an executable model + extracted-model/implementation differential run"
DESIGN_REF = "DESIGN.md section 6, C14"

# ---- L0b: kernel-checked agreement of the arithmetic this property's model restates with the
# ---- Go source (coq/Gen/GoArith2.v is regenerated by gotrans on every run; see docs/gotrans.md)
import l0_common as _l0
COQ_TARGETS = list(COQ_TARGETS) + _l0.COQ_TARGETS2_BY_OWNER["C14"]
EXTRA_OBLIGATIONS = list(globals().get("EXTRA_OBLIGATIONS", [])) + _l0.EXTRA_OBLIGATIONS2_BY_OWNER["C14"]
_l0_prev_generate = globals().get("generate")


def generate(res):
    notes = list(_l0_prev_generate(res) or []) if (_l0_prev_generate and _l0_prev_generate is not _l0.generate) else []
    return notes + list(_l0.generate(res) or [])
