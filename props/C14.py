ID = "C14"
LEVEL = "proof"
COQ_TARGETS = ["Props/Properties_C14.vo", "Extract/ExtractFrame.vo"]
PROPS_FILES = ["Props/Properties_C14.v"]
RUNS = [dict(name="frame", harness="c14", driver="frame", model_ml="frame_model")]
EXPLANATION = ("Theorems over all message lists / all byte strings / all chunkings about the Gallina model of the stream "
               "framing in message.go (Marshal, Unmarshal, Encoder.Encode, Decoder.Decode with MaxMessageSize, the "
               "segment-count limit, ReuseBuffer and an allocation log); the model is tied to the code by running the "
               "extracted model and the real Encoder/Decoder/Marshal/Unmarshal on the same inputs and histories.")
TRUSTED = []
MODELLED = []
ASSUMPTIONS = ["bytes are 0..255; int is 64 bit"]


def classify(run, case, impl, model):
    op = case.split()[0]
    def k(o):
        f = o.split()
        if not f:
            return "empty"
        if op == "decode":
            # first differing outcome of the history
            return f[0].split(":")[0] + ("/" + f[0].split(":")[1] if f[0].startswith("err:") else "")
        return f[0] + ("/" + f[1] if f[0] == "err" and len(f) > 1 else "")
    if op == "decode":
        fi, fm = impl.split(), model.split()
        for a, b in zip(fi, fm):
            if a != b:
                return "decode/impl=%s/model=%s" % (k(a), k(b))
        return "decode/length"
    return "%s/impl=%s/model=%s" % (op, k(impl), k(model))


def violates(run, case, impl, model):
    return True

LEVEL_TEXT = "tbd"
LEVEL_NOTE = "tbd"
TECHNIQUE = "Coq proof over an executable model + extracted-model/implementation differential run"
DESIGN_REF = "DESIGN.md section 6, C14"
