"""Shared by C04 / C05 / C16: case-line parsing, classification of disagreements and the
property predicates evaluated on the implementation's own observations."""
import re


def split_case(case):
    f = case.split()
    ops = f[8].split(";") if len(f) > 8 and f[8] != "-" else []
    marks, expect = [], None
    for x in f[9:]:
        if x.startswith("marks="):
            marks = x[6:].split("/")
        elif x.startswith("expect="):
            expect = x[7:]
    return f, ops, marks, expect


def cls(x):
    if x.startswith("P("): return "ptr"
    if x.startswith("D"): return "dump"
    if x.startswith("T"): return "tree"
    if x.startswith("RT"): return x
    if x[:1] in "NBX": return x[:1]
    if x in ("ok", "err", "panic", "null", "none", "new:ok", "new:err"): return x
    if "@" in x: return "walk"
    return x[:10]


def dump_diff(a, b):
    pa, pb = a.split("|"), b.split("|")
    if len(pa) != 4 or len(pb) != 4: return "shape"
    if pa[0] != pb[0]:
        sa, sb = pa[0][1:].split(","), pb[0][1:].split(",")
        if len(sa) != len(sb): return "nsegs"
        for x, y in zip(sa, sb):
            if x.split("/")[-1] != y.split("/")[-1]: return "cap"
            if len(x) != len(y): return "len"
        return "bytes"
    if pa[1] != pb[1]: return "captable"
    if pa[2] != pb[2]: return "refs"
    return "rlimit"


def classify(run, case, impl, model):
    if case.startswith("V "):
        if impl == model:
            return "valid/oracle/" + (impl_violation(run, case, impl) or "none")
        return "valid/impl=%s/model=%s" % (cls(impl.split(";")[0]), cls(model.split(";")[0]))
    f, ops, marks, expect = split_case(case)
    io, mo = impl.split(";"), model.split(";")
    for k in range(min(len(io), len(mo))):
        if io[k] != mo[k]:
            op = ops[k - 1].split(":")[0] if 0 < k <= len(ops) else "new"
            extra = ""
            if cls(io[k]) == "dump" and cls(mo[k]) == "dump":
                extra = "/" + dump_diff(io[k], mo[k])
            return "%s/impl=%s/model=%s%s" % (op, cls(io[k]), cls(mo[k]), extra)
    if len(io) != len(mo):
        return "length/impl=%d/model=%d" % (len(io), len(mo))
    v = impl_violation(run, case, impl)
    return "oracle/" + (v or "none")


TREE_BAD = re.compile(r"[EF!]")


def tree_of(obs):
    if obs.startswith("T"): return obs[1:]
    return obs.split("@")[0]


def impl_violation(run, case, impl):
    """Property predicates on the implementation alone; returns a short tag or None."""
    if case.startswith("V "):
        if not impl.startswith("valid;T"): return "not-readable"
        for x in case.split()[3:]:
            if x.startswith("expect=") and impl[7:] != x[7:]: return "written-tree"
        return None
    f, ops, marks, expect = split_case(case)
    io = impl.split(";")[1:]   # drop new:ok
    def ob(i):
        return io[i] if 0 <= i < len(io) else None
    for m in marks:
        k, _, v = m.partition("=")
        idx = [int(x) for x in v.split(",")]
        if k == "rb":       # setter at i succeeded, read of the same location at j
            i, j = idx
            s, r = ob(i), ob(j)
            if s != "ok" or r is None: continue
            a = ops[i].split(":")
            if a[0] in ("setuint", "lsetuint"):
                want = "N%d" % (int(a[4]) % (1 << (8 * int(a[3]))))
            else:
                want = "B" + a[3]
            if r != want: return "readback-" + a[0]
        elif k == "same":   # two walks of one side around mutations of the other side
            i, j = idx
            a, b = ob(i), ob(j)
            if a is None or b is None: continue
            ta, tb = tree_of(a), tree_of(b)
            if TREE_BAD.search(ta) or TREE_BAD.search(tb): continue
            if ta != tb: return "independence"
        elif k in ("expect", "expectT"):
            a = ob(idx[0])
            if a is None: continue
            if tree_of(a) != expect: return "written-tree-" + k
    for x in io:
        if x.startswith("RT"): return "roundtrip-" + x
    return None
