"""Stand-alone entry for the spec-independent C05 run (./check c05s_standalone); the integrator wires
props/c05_spec_run.py into props/C05.py. Evidence goes to evidence/C05S.json."""
import os, sys
sys.path.insert(0, os.path.dirname(os.path.abspath(__file__)))
import c05_spec_run as sr
ID = "C05S"
LEVEL = "other"
COQ_TARGETS = list(sr.COQ_TARGETS)
PROPS_FILES = list(sr.PROPS_FILES)
RUNS = [sr.RUN]
EXPLANATION = sr.__doc__
TRUSTED = sr.TRUSTED
MODELLED = []
ASSUMPTIONS = []
LEVEL_TEXT = "run of property C05 with the independent specification decoder"
LEVEL_NOTE = "stand-alone entry; see props/C05.py"
TECHNIQUE = "extracted specification decoder vs the library's Marshal output"
DESIGN_REF = "DESIGN.md section 6, C05"
classify = sr.classify
violates = sr.violates
