import os, sys
sys.path.insert(0, os.path.dirname(os.path.abspath(__file__)))
import build_common as bc

ID = "C05"
LEVEL = "other"
COQ_TARGETS = ["Props/Properties_C05.vo", "Props/Properties_C05_spec.vo", "Extract/ExtractBuild.vo"]
PROPS_FILES = ["Props/Properties_C05.v", "Props/Properties_C05_spec.v"]
RUNS = [dict(name="valid", harness="c04", driver="build", model_ml="build_model", harness_args=["-mode", "c05"])]
EXPLANATION = ("Strict validity predicate valid_message (Coq, from the encoding document, independent of the reader model) and a spec-style tree decoder are executed on the bytes Message.Marshal produced for every generated program and compared with the library's own tree and the written value tree; theorems: allocation half of heap_inv and its preservation by all pointer-writing ops, pointer resolution.")
TRUSTED = ["models coq/Core/Builder.v (alloc, arenas, nextAlloc, constructors, setters, writePtr, copyStruct), coq/Core/BuildOps.v "
           "(op-list interpreter) and coq/Core/Reader.v hand-written from message.go / segment.go / struct.go / list.go / capability.go; "
           "tied to the code by the differential run only",
           "coq/Core/BuildValid.v (strict validity predicate + spec-style tree decoder) is written from the encoding document; it is "
           "executed, not proved equal to Spec.v's decoder",
           "repo hook verif_builder.go (read-only Client reference count), verif_ptrinfo.go, verif_export.go"]
MODELLED = ["Go slices (a segment is a byte list + a capacity; writes beyond len are impossible by construction)",
            "capability clients are abstract ids (the harness gives each client its id as Brand)",
            "Marshal/Unmarshal/packed/Encoder/Decoder paths are exercised by the harness (rt op: all five paths must give the same "
            "tree and Marshal must equal the frame computed from the segments); their model is C13/C14's"]
ASSUMPTIONS = ["64-bit int; segments < 2^32 bytes, segment count < 2^32; bytes are 0..255",
               "a failed pointer-writing / allocating op ends the compared run (the model keeps no state for a failed op)",
               "fuel of write_ptr/copy_struct: theorems are about Ok results, which are never produced by fuel exhaustion"]
TECHNIQUE = "Coq proof over an executable model + extracted-model/implementation differential run"
LEVEL_TEXT = ('Partial proof + differential run. Proved for all arenas/capacities: allocated regions are zeroed, aligned, inside len<=cap and pairwise disjoint; segments stay word aligned and only grow under SetPtr/Set/SetRoot/SetStruct/CopyFrom with all copy branches; every placed pointer resolves with well-formed landing pads; placed_struct_is_spec_valid: the struct pointer just written is resolved by the specification decoder (coq/Spec) to exactly its target, inside the message; heap_inv_partial: an invariant over all op lists of the interpreter (well-formed segments + sound handle pool) in every reachable state. The full heap_inv (every reachable state satisfies valid_message) is checked by executing the extracted valid_message + spec tree on the real Marshal bytes of every program.')
LEVEL_NOTE = ("Missing for level proof: heap_inv as an invariant over op lists implying valid_message = VOk (needs the abstract object table of builder_refines); marshal_header_ok is C14's.")
DESIGN_REF = "DESIGN.md section 6, C05"

classify = bc.classify


def impl_violation(run, case, impl):
    return bc.impl_violation(run, case, impl) is not None


def violates(run, case, impl, model):
    # the compared observables are result classes, segment bytes / lengths / capacities, the
    # capability table and read-back values: any difference from the model (whose behaviour the
    # theorems describe), or a failed oracle (read-back, written tree, independence, round
    # trip, validity), is a property violation of the implementation at this input
    return True
