import os, sys
sys.path.insert(0, os.path.dirname(os.path.abspath(__file__)))
import build_common as bc

ID = "C05"
LEVEL = "proof"
COQ_TARGETS = ["Props/Properties_C05.vo", "Props/Properties_C05_spec.vo", "Props/Properties_C05_heap.vo", "Extract/ExtractBuild.vo"]
PROPS_FILES = ["Props/Properties_C05.v", "Props/Properties_C05_spec.v", "Props/Properties_C05_heap.v"]
RUNS = [dict(name="valid", harness="c04", driver="build", model_ml="build_model", harness_args=["-mode", "c05"])]
EXPLANATION = ("Strict validity predicate valid_message (Coq, from the encoding document, independent of the reader model) and a spec-style tree decoder are executed on the bytes Message.Marshal produced for every generated program and compared with the library's own tree and the written value tree; theorems: allocation half of heap_inv and its preservation by all pointer-writing ops, pointer resolution.")
TRUSTED = ["models coq/Core/Builder.v (alloc, arenas, nextAlloc, constructors, setters, writePtr, copyStruct), coq/Core/BuildOps.v "
           "(op-list interpreter) and coq/Core/Reader.v hand-written from message.go / segment.go / struct.go / list.go / capability.go; "
           "tied to the code by the differential run only",
           "coq/Core/BuildValid.v (strict validity predicate + spec-style tree decoder) is written from the encoding document; it is "
           "executed, not proved equal to Spec.v's decoder",
           "repo hook verif_builder.go (read-only Client reference count), verif_ptrinfo.go, verif_export.go"]
MODELLED = ["Go slices (a segment is a byte list + a capacity; writes beyond len are impossible by construction)",
            "capability clients are abstract ids (the harness gives each client its id as Brand)",
            "Marshal/Unmarshal/packed/Encoder/Decoder paths are exercised by the harness (rt op: all five paths must give the same "
            "tree and Marshal must equal the frame computed from the segments); their model is C13/C14's"]
ASSUMPTIONS = ["64-bit int; segments < 2^32 bytes, segment count < 2^32; bytes are 0..255",
               "a failed pointer-writing / allocating op ends the compared run (the model keeps no state for a failed op)",
               "fuel of write_ptr/copy_struct: theorems are about Ok results, which are never produced by fuel exhaustion"]
TECHNIQUE = "Coq proof over an executable model + extracted-model/implementation differential run"
LEVEL_TEXT = ('Proof for the builder incl. cross-message copies + differential run for everything. C05_heap_inv_tables (HeapOps.v, HeapCopy.v, HeapSteps.v): every reachable state of every program in every arena configuration with a root word has a ghost object table and pad table satisfying hinv (every pool handle is a view of the table; hinv preserved by every op incl. all copy paths of writePtr/copyStruct, C05_copy_all); corollary C05_heap_inv_sublang (HeapValid.v): hinv implies valid_message = VOk, a structural predicate (see note). hinv (HeapInv.v): every pointer slot and the root hold the null word, the inline empty struct, a capability pointer or exactly the words the placement switch stores for one table object (structs, lists of every kind incl. composite lists with their tag word), regions inside their segments and pairwise disjoint. Also proved for all arenas/capacities and ALL ops incl. cross-message: allocated regions are zeroed, aligned, inside len<=cap and pairwise disjoint; segments stay word aligned and only grow; every placed pointer resolves with well-formed landing pads; placed_struct_is_spec_valid; heap_inv_partial. All ops are also checked by executing the extracted valid_message + spec tree on the real Marshal bytes of every program.')
LEVEL_NOTE = ("HEADLINE THEOREM C05_heap_inv_tables: in every reachable state (all arena configurations with a root word, < 2^32 "
              "segments) there are an object table and a pad table such that every pointer slot and the root hold the null word, "
              "the inline empty struct, a capability pointer or exactly the placement words for ONE table object, and objects, "
              "root word and pads lie inside their segments and are pairwise disjoint; C05_heap_inv_sublang (valid_message = VOk) "
              "is a strictly weaker corollary: valid_message is STRUCTURAL - it accepts equal regions of different kind and a "
              "root pointer designating its own word (C05_valid_message_is_structural) - and says nothing about data values. "
              "Covered: EVERY op of the builder: all constructors incl. NewCompositeList; all data setters; all pointer setters "
              "with any handle as source incl. every copy path inside the message (C05_copy_all) and from another message "
              "(C05_copy_src_all: any source bytes 0..255, no validity of the source assumed; capabilities appended to the "
              "capability table); capabilities; the handle-creating read ops on both messages; reopen; read-only accessors. "
              "sub_prog rejects nothing but arguments outside the Go types' ranges. Premises besides the segment bound: source "
              "bytes 0..255 (msg_ok), the source read with the repaired composite-tag check (cfg_strict), dst_run: data setters "
              "are applied to handles of the message under construction (docs/C05.md). RUNS ONLY (extracted valid_message + spec "
              "decoder on the real bytes of every generated program): (1) 'an independent decoder reconstructs exactly the tree "
              "that was written' - there is NO theorem relating the spec decoder's tree to the written values (the pointer "
              "structure is C05_heap_inv_tables / C04_read_slot, data values are C04's read-back; their composition into a tree "
              "equality is not stated); (2) the segment table / framing written by Marshal: not a C05 theorem - C14 proves "
              "C14_encode_is_marshal and C14_unmarshal_roundtrip for segment lists and C04_marshal_roundtrip_states / "
              "C04_all_paths_states compose them with builder states; Marshal's own segment loading (message.go) is not modelled; (3) data "
              "setters on source handles followed by copies; (4) arenas without a root word (valid_message itself requires the "
              "root word); (5) the message after a failed pointer setter / constructor (the run ends there).")
DESIGN_REF = "DESIGN.md section 6, C05"

classify = bc.classify


def impl_violation(run, case, impl):
    return bc.impl_violation(run, case, impl) is not None


def violates(run, case, impl, model):
    # the compared observables are result classes, segment bytes / lengths / capacities, the
    # capability table and read-back values: any difference from the model (whose behaviour the
    # theorems describe), or a failed oracle (read-back, written tree, independence, round
    # trip, validity), is a property violation of the implementation at this input
    return True

# ---- L0b: kernel-checked agreement of the arithmetic this property's model restates with the
# ---- Go source (coq/Gen/GoArith2.v is regenerated by gotrans on every run; see docs/gotrans.md)
import l0_common as _l0
COQ_TARGETS = list(COQ_TARGETS) + _l0.COQ_TARGETS2_BY_OWNER["C05"]
EXTRA_OBLIGATIONS = list(globals().get("EXTRA_OBLIGATIONS", [])) + _l0.EXTRA_OBLIGATIONS2_BY_OWNER["C05"]
_l0_prev_generate = globals().get("generate")


def generate(res):
    notes = list(_l0_prev_generate(res) or []) if (_l0_prev_generate and _l0_prev_generate is not _l0.generate) else []
    return notes + list(_l0.generate(res) or [])

# ---- independent decoder (coq/Spec, written from the encoding document) on the Marshal bytes of
# ---- messages built by its own generator: "an independent decoder reconstructs exactly the tree
# ---- that was written" (docs/C05-spec.md)
import c05_spec_run as _sr
RUNS = list(RUNS) + [_sr.RUN]
COQ_TARGETS = list(COQ_TARGETS) + _sr.COQ_TARGETS
PROPS_FILES = list(PROPS_FILES) + _sr.PROPS_FILES
TRUSTED = list(globals().get("TRUSTED", [])) + _sr.TRUSTED
classify = _sr.wrap_classify(classify)
violates = _sr.wrap_violates(violates)
impl_violation = _sr.wrap_impl_violation(impl_violation)

# ---- tree layer (coq/Core/BuildTreeBridge.v, coq/Core/BuildTree.v, Props/Properties_C05_tree.v):
# ---- the SPECIFICATION resolver (Spec.spec_resolve, strict) on every slot of every reachable state
COQ_TARGETS = list(COQ_TARGETS) + ["Props/Properties_C05_tree.vo"]
PROPS_FILES = list(PROPS_FILES) + ["Props/Properties_C05_tree.v"]
LEVEL_NOTE = LEVEL_NOTE + (
    " TREE LAYER (Properties_C05_tree.v), single level only: C05_resolve_ptr_is_spec - for EVERY segment list, whatever the "
    "validator's resolver (BuildValid.resolve_ptr, the one hinv speaks about) accepts at an aligned word, the resolver of the "
    "encoding specification (Spec.spec_resolve, strict) resolves to the corresponding target (near / far+pad / double-far; "
    "structs, all list kinds, composite tag, capability, null); C05_slot_decodes_to_table and C05_tree_slots_sublang - in every "
    "reachable state of every sub_prog program the SPECIFICATION resolver maps every pointer slot of every table object and the "
    "root word to null, a capability, a zero-sized target or exactly the spec target of ONE table object (pointer half of the "
    "single-level decode); C05_spec_struct_data / C05_spec_list_elem - the spec decoder's struct data bytes / primitive list "
    "elements are the segment content at the object's address (data half; what those bytes are after a run is C04's read-back). "
    "STILL NOT PROVED (item (1) above stays RUNS ONLY as a tree equality): no abstract-store interpreter for op lists, no "
    "abs_step (commutation of the abstraction with each op), no induction on fuel composing the single-level results into "
    "spec_decode = abstract tree; bit lists and composite-list element views have no data-half lemma; the lenient mode "
    "(strict=false) is not covered by the bridge.")
