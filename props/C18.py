ID = "C18"
LEVEL = "other"
COQ_TARGETS = ["Props/Properties_C18.vo", "Extract/ExtractValue.vo"]
PROPS_FILES = ["Props/Properties_C18.v"]
RUNS = [dict(name="canon", harness="c18", driver="value", model_ml="value_model", driver_args=["c18"])]
EXPLANATION = ("The canonical form is specified in Coq from the encoding specification (coq/Value/CanonSpec.v: norm = truncation "
               "rules, enc = contiguous pre-order layout, cparse = strict sequential decoder) and proved: one normal form per "
               "schema-level equality class (layout/version independence), the normal form equals the value, normalisation is "
               "idempotent, output is one word-aligned segment, capabilities have no canonical form; the decoder round trip is "
               "proved for everything but struct lists. capnp.Canonicalize is modelled step by step over the builder and reader models "
               "(coq/Value/CanonM.v). On every generated input the harness compares Canonicalize's bytes with the extracted "
               "model AND with canon applied to the walked tree, and evaluates the property's own predicates on the "
               "implementation (reads back Equal, idempotent, same bytes for all layouts and schema versions of a value).")
TRUSTED = ["canonical-form specification coq/Value/CanonSpec.v written from encoding.html#canonicalization (trusted reading)",
           "model coq/Value/CanonM.v hand-written from canonical.go over coq/Core/Builder.v and Reader.v; its agreement with "
           "the specification (canon_m_correct_statement, [T2]) is proved for the null struct only and otherwise checked by the "
           "correspondence run",
           "the strict decoder cparse is tied to the library's reader only by the run (flag R: output read back with the Go "
           "reader is Equal to the input; flag P: cparse accepts every canon output and re-canonicalises to the same bytes)"]
MODELLED = ["single-segment arena growth (Builder.v allocSegment/nextAlloc)", "Go slices with cap == len for source segments"]
ASSUMPTIONS = ["values are well formed (wfv) and sizes fit their pointer fields; 64-bit platform"]
LEVEL_TEXT = ("Other: [T1] proved for all values: canon_unique (value_eqs a b -> canon a = canon b), norm_veq, canon_norm "
              "(idempotence at value level), canon_aligned, canon_cap_none; the decoder round trip cparse(enc v) = v is proved "
              "for null, structs, void, pointer, bit and primitive lists and checked by evaluation for struct "
              "lists. The uniqueness relation is value_eqs (no list upgrade): value_eq a b -> canon a = canon b is false. [T2] (Go-faithful model = specification) stated, proved for the null struct, otherwise by differential run. "
              "Defects F04, O2 and O3 found by the run and fixed; pre-fix models kept with witnesses.")
LEVEL_NOTE = ("Trusted: Coq kernel, extraction, harness, hand-written model and specification. Not proved: cparse_enc_statement "
              "for bit/primitive/struct lists, canon_m_correct_statement.")
TECHNIQUE = "Coq proof over an executable model + extracted-model/implementation differential run"
DESIGN_REF = "DESIGN.md section 6, C18"


def _f(line):
    f = line.split()
    return f + ["?"] * (4 - len(f))


def _c(x):
    return "ok" if x.startswith("ok:") else x


def _far_null(case):
    """Does the message contain a far pointer whose landing pad word is null (observation O3)?"""
    try:
        f = case.split()
        segs = []
        for h in f[5].split(","):
            if h.startswith("Z"):
                n, pre = h[1:].split(":")
                b = bytes.fromhex(pre) if pre not in ("", "-") else b""
                segs.append(b + bytes(int(n) - len(b)))
            else:
                segs.append(bytes.fromhex(h) if h not in ("-", "_") else b"")
        for s in segs:
            for k in range(0, len(s) - 7, 8):
                w = int.from_bytes(s[k:k + 8], "little")
                if w & 3 == 2 and w & 4 == 0:
                    sid, off = w >> 32, ((w & 0xffffffff) >> 3) * 8
                    if sid < len(segs) and off + 8 <= len(segs[sid]) and segs[sid][off:off + 8] == bytes(8):
                        return True
    except Exception:
        pass
    return False


def classify(run, case, impl, model):
    kind = case.split()[0].split("/")[0]
    if _far_null(case):
        kind += "+farnull"
    i, m = _f(impl), _f(model)
    if i[0] != m[0]:
        what = "res"
    elif i[1] != m[1]:
        what = "spec"
    elif i[2] != m[2]:
        what = "flags"
    else:
        what = "tree"
    return "%s/%s/impl=%s,%s,%s/model=%s,%s,%s" % (kind, what, _c(i[0]), _c(i[1]), i[2], _c(m[0]), _c(m[1]), m[2])


def violates(run, case, impl, model):
    # the property's predicates on the implementation: a panic; on a completely walked tree: bytes different from the
    # canonical-form specification, an error on a capability-free value, success on a value with capabilities, or one
    # of R (reads back Equal) / I (idempotent) / G (same bytes as the other layouts) false
    i, m = _f(impl), _f(model)
    if i[0] == "panic" or i[1] == "panic":
        return True
    if i[3] != m[3] or m[1] == "-":
        return False
    return i[1] != m[1] or i[2] != m[2]
