ID = "C18"
LEVEL = "proof"
COQ_TARGETS = ["Props/Properties_C18.vo", "Extract/ExtractValue.vo"]
PROPS_FILES = ["Props/Properties_C18.v"]
RUNS = [dict(name="canon", harness="c18", driver="value", model_ml="value_model", driver_args=["c18"])]
EXPLANATION = ("The canonical form is specified in Coq from the encoding specification (coq/Value/CanonSpec.v: norm = truncation "
               "rules, enc = contiguous pre-order layout, cparse/cdecode = strict sequential decoder) and all [T1] theorems are "
               "proved for all values: one canonical form per schema-level equality class (value_eqs: layout, padding and "
               "version independence), the canonical bytes decode to exactly the canonical representative, which is equal to "
               "the value; canonicalising what was read back returns the same bytes; the output is one word-aligned segment; "
               "capabilities have no canonical form. capnp.Canonicalize is modelled step by step over the builder and reader "
               "models (coq/Value/CanonM.v); [T2] (model = specification) is proved by a heap-level induction for every value (root struct with whole-word data section) "
               "(canon_m_correct: structs, void / bit / primitive / pointer / struct lists, any depth and layout), and a "
               "value containing a capability never yields bytes (canon_m_cap_error). On every generated input "
               "the harness compares Canonicalize's bytes with the extracted model AND with canon applied to the walked tree, "
               "and evaluates the property's own predicates on the implementation (reads back Equal, idempotent, same bytes "
               "for all layouts and schema versions of a value).")
TRUSTED = ["canonical-form specification coq/Value/CanonSpec.v written from encoding.html#canonicalization (trusted reading)",
           "model coq/Value/CanonM.v hand-written from canonical.go over coq/Core/Builder.v and Reader.v; its agreement with "
           "the specification ([T2]) is proved for every value under the whole-word premise on the root struct (canon_m_correct); the IMPLEMENTATION is tied to the model and "
           "to the SPECIFICATION by the "
           "correspondence run (Canonicalize bytes = canon (denote (walk input)) on every case, 0 disagreements)",
           "the strict decoder cdecode is tied to the library's reader only by the run (flag R: output read back with the Go "
           "reader is Equal to the input; flag P: cdecode accepts every canon output and re-canonicalises to the same bytes)"]
MODELLED = ["single-segment arena growth (Builder.v allocSegment/nextAlloc)", "Go slices with cap == len for source segments"]
ASSUMPTIONS = ["values are well formed, field values fit their fields, no capabilities (good v); sizes fit their pointer fields "
               "(otherwise canon is None); 64-bit platform",
               "the uniqueness relation is value_eqs (no list upgrade): value_eq a b -> canon a = canon b is FALSE (a primitive "
               "list and the equivalent struct list are Equal but have different canonical forms)"]
LEVEL_TEXT = ("Proof ([T1], all values): canon_unique (value_eqs a b -> canon a = canon b), cdecode_canon (the strict pre-order "
              "decoder reads the canonical bytes back as exactly norm v), canon_decodes_equal (value_eqs and value_eq to v), "
              "canon_idempotent, canon_norm, canon_aligned, canon_cap_none; cparse_enc for every normal-form value incl. bit, "
              "primitive and struct lists. [T2] (Go-faithful model = specification) proved by mutual induction on fuel over "
              "canonicalPtr / fillCanonicalStruct / canonicalList (Q_all) for every value, UNDER THE PREMISE that the struct handed "
              "to Canonicalize has a data section of whole words (every struct the reader hands out; not List.Struct(i) of a "
              "1/2/4-byte list): canon_m_correct(_full) (bytes returned = canon of the denoted value, never a panic), "
              "canon_m_cap_error (capability => error or fuel exhaustion, never bytes), non-vacuity instances. Consequences: "
              "layout independence (value_eqs inputs => same bytes); value preservation w.r.t. the specification's strict "
              "decoder cdecode with 'good v' as a hypothesis; idempotent_given_readback (the read-back value is a hypothesis: "
              "layout independence instantiated, not idempotence by itself). Defects F04, O2, O3 (found by the run) and S1 "
              "(sub-word list members, found by the independent review) fixed; pre-fix models kept with witnesses "
              "(canon_subword_refuted: three computed instances, as found = empty struct, repaired = canon).")
LEVEL_NOTE = ("Level 'proof' covers [T1] (the specification-level theorems, all values) and [T2]: the Go-faithful model of "
              "Canonicalize returns exactly the specification's canonical bytes of the denoted value -- for every value, but "
              "only for structs whose data section is a whole number of words (premise DataSize mod 8 = 0 in every [T2] "
              "theorem: true for structs handed out by the reader and for struct-list elements). NOT covered by a theorem: "
              "Canonicalize(l.Struct(i)) for elements of 1/2/4-byte lists -- there the code as found was wrong (empty struct; "
              "defect S1, repo fix 0fb41d1); for the repaired code only three computed instances and the differential run "
              "(list members of every list kind are generated) cover it. Also NOT proved: which inputs make Canonicalize "
              "return an error instead of bytes (only 'never a panic' and 'a capability never yields bytes'); that the "
              "library READER reads the output back as an equal value (value preservation is stated with the specification's "
              "own strict decoder cdecode, and 'idempotence' takes the read-back value as a hypothesis; the run checks both "
              "on every case, flags R and I); uniqueness is for value_eqs, not Equal's value_eq. [T2] is about the "
              "hand-written model; the implementation is tied to it by the differential run. Trusted: Coq kernel, "
              "extraction, harness, hand-written model and specification.")
TECHNIQUE = "Coq proof over an executable model + extracted-model/implementation differential run"
DESIGN_REF = "DESIGN.md section 6, C18"


def _f(line):
    f = line.split()
    return f + ["?"] * (4 - len(f))


def _c(x):
    return "ok" if x.startswith("ok:") else x


def _far_null(case):
    """Does the message contain a far pointer whose landing pad word is null (observation O3)?"""
    try:
        f = case.split()
        segs = []
        for h in f[5].split(","):
            if h.startswith("Z"):
                n, pre = h[1:].split(":")
                b = bytes.fromhex(pre) if pre not in ("", "-") else b""
                segs.append(b + bytes(int(n) - len(b)))
            else:
                segs.append(bytes.fromhex(h) if h not in ("-", "_") else b"")
        for s in segs:
            for k in range(0, len(s) - 7, 8):
                w = int.from_bytes(s[k:k + 8], "little")
                if w & 3 == 2 and w & 4 == 0:
                    sid, off = w >> 32, ((w & 0xffffffff) >> 3) * 8
                    if sid < len(segs) and off + 8 <= len(segs[sid]) and segs[sid][off:off + 8] == bytes(8):
                        return True
    except Exception:
        pass
    return False


def classify(run, case, impl, model):
    kind = case.split()[0].split("/")[0]
    if kind == "big":
        return "%s/impl=%s/model=%s" % (case.split()[0], impl.split()[0], model.split()[0])
    if _far_null(case):
        kind += "+farnull"
    i, m = _f(impl), _f(model)
    if i[0] != m[0]:
        what = "res"
    elif i[1] != m[1]:
        what = "spec"
    elif i[2] != m[2]:
        what = "flags"
    else:
        what = "tree"
    return "%s/%s/impl=%s,%s,%s/model=%s,%s,%s" % (kind, what, _c(i[0]), _c(i[1]), i[2], _c(m[0]), _c(m[1]), m[2])


def violates(run, case, impl, model):
    # the property's predicates on the implementation: a panic; on a completely walked tree: bytes different from the
    # canonical-form specification, an error on a capability-free value, success on a value with capabilities, or one
    # of R (reads back Equal) / I (idempotent) / G (same bytes as the other layouts) false
    if case.startswith("big"):
        return impl != model    # implementation-side predicates of the property (R I K J X)
    i, m = _f(impl), _f(model)
    if i[0] == "panic" or i[1] == "panic":
        return True
    if i[3] != m[3] or m[1] == "-":
        return False
    return i[1] != m[1] or i[2] != m[2]
