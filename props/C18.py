ID = "C18"
LEVEL = "other"
COQ_TARGETS = ["Extract/ExtractValue.vo"]
PROPS_FILES = []
RUNS = [dict(name="canon", harness="c18", driver="value", model_ml="value_model", driver_args=["c18"])]
EXPLANATION = "work in progress"
TRUSTED = []
MODELLED = []
ASSUMPTIONS = []
LEVEL_TEXT = "wip"
LEVEL_NOTE = "wip"
TECHNIQUE = "Coq proof over an executable model + extracted-model/implementation differential run"
DESIGN_REF = "DESIGN.md section 6, C18"


def _f(line):
    f = line.split()
    return f + ["?"] * (4 - len(f))


def _c(x):
    return "ok" if x.startswith("ok:") else x


def classify(run, case, impl, model):
    kind = case.split()[0].split("/")[0]
    i, m = _f(impl), _f(model)
    if i[0] != m[0]:
        what = "res"
    elif i[1] != m[1]:
        what = "spec"
    elif i[2] != m[2]:
        what = "flags"
    else:
        what = "tree"
    return "%s/%s/impl=%s,%s,%s/model=%s,%s,%s" % (kind, what, _c(i[0]), _c(i[1]), i[2], _c(m[0]), _c(m[1]), m[2])


def violates(run, case, impl, model):
    # the property's predicates on the implementation: a panic; on a completely walked tree: bytes different from the
    # canonical-form specification, an error on a capability-free value, success on a value with capabilities, or one
    # of R (reads back Equal) / I (idempotent) / G (same bytes as the other layouts) false
    i, m = _f(impl), _f(model)
    if i[0] == "panic" or i[1] == "panic":
        return True
    if i[3] != m[3] or m[1] == "-":
        return False
    return i[1] != m[1] or i[2] != m[2]
