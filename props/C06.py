from rpc_common import *  # noqa
import rpc_common as rc

ID = "C06"
LEVEL = "proof"
COQ_TARGETS = ["Props/Properties_C06.vo"] + rc.COQ_COMMON
PROPS_FILES = ["Props/Properties_C06.v"]
RUNS = [rc.run("rpc", "s,v,x", salt=6)]
DESIGN_REF = "DESIGN.md section 6, C06"
post = rc.make_post(ID, "rpc")


def violates(run, case, impl, model):
    """C06's predicate: Returns (ids, result class), Bootstrap/Call/Finish ids used by the Conn, the order
    in which the local servers see calls, and the results seen by local callers are the machine's."""
    if rc.crashed(impl):
        return True
    # every step, not only the first difference: a lost Disembargo (not itself a C06 message) shows as a
    # different delivery order some events later
    _, io, mo = rc.steps(case, impl, model)
    pick = lambda ms: sorted(re.sub(r",.*", "", x) for x in ms if x[0] in "RBCFD")
    for k in range(max(len(io), len(mo))):
        im, idl, iap, _ = rc.parts(io[k] if k < len(io) else "")
        mm, mdl, map_, _ = rc.parts(mo[k] if k < len(mo) else "")
        if pick(im) != pick(mm) or idl != mdl or iap != map_:
            return True
    return False


LEVEL_TEXT = ("Proof (all T1 theorems at history level; the stretch theorem delivery_order, T2, is NOT proved and is covered by the "
              "differential run only): proved for ALL histories of the machine of rpc.Conn -- for every answer id the Returns in "
              "the outbox never exceed the Bootstrap/Call messages accepted with it, and while the connection is up they are "
              "equal except for the at most one answer that still owes its Return (C06_one_return, by a balance invariant "
              "through every handler); the Return sent when a local server returns carries that outcome (C06_return_is_targets); "
              "every Bootstrap/Call sent with a question id is matched by a Finish for it except the current use, and newQuestion "
              "hands out only ids whose slot is empty, so an id is never re-issued before its Finish is in the outbox "
              "(C06_question_ids, C06_new_question_is_free); every local call resolves exactly once: at every point of every "
              "history, through shutdown, a call number that was handed out has exactly one of {a resolution in the outbox, an "
              "unfinished question, a running direct delivery, a place behind an embargo}, so it is never resolved twice, never "
              "lost, and after shutdown no question holds a call (C06_call_resolves_once, C06_shut_calls_resolved); no handler "
              "panics or blocks, in particular a Call pipelined on an unreturned answer (F14 refuted on the pre-fix machine). "
              "delivery_order is modelled (drain, eff_parent, wake_calls) and compared by the differential run (scenarios + "
              "valid stream + window histories in which a second event arrives inside a handler: a Return overtaking a pipelined "
              "Call, a pipelined call arriving during an answer-queue drain): Returns, ids, Disembargo, order seen by the "
              "instrumented servers, results seen by local callers, table occupancy; plus fault histories (stream x: a transport write "
              "fails, e.g. the Finish of a canceled call) judged by wire-level invariants only: no crash / wedge / leak and no question "
              "id reused while the peer still holds it as an unfinished answer (oracle REUSE, also active on the valid stream). "
              "Found and repaired: F14, F23, F27.")
LEVEL_NOTE = ("delivery_order (T2, stretch) is not proved: differential run only. question_ids first half is stated for a connection that is up. "
              "See coq/Props/Properties_C06.v for the full statements.")
