from rpc_common import *  # noqa
import rpc_common as rc

ID = "C06"
LEVEL = "other"
COQ_TARGETS = ["Props/Properties_C06.vo"] + rc.COQ_COMMON
PROPS_FILES = ["Props/Properties_C06.v"]
RUNS = [rc.run("rpc", "s,v", salt=6)]
DESIGN_REF = "DESIGN.md section 6, C06"
post = rc.make_post(ID, "rpc")


def violates(run, case, impl, model):
    """C06's predicate: Returns (ids, result class), Bootstrap/Call/Finish ids used by the Conn, the order
    in which the local servers see calls, and the results seen by local callers are the machine's."""
    if rc.crashed(impl):
        return True
    # every step, not only the first difference: a lost Disembargo (not itself a C06 message) shows as a
    # different delivery order some events later
    _, io, mo = rc.steps(case, impl, model)
    pick = lambda ms: sorted(re.sub(r",.*", "", x) for x in ms if x[0] in "RBCFD")
    for k in range(max(len(io), len(mo))):
        im, idl, iap, _ = rc.parts(io[k] if k < len(io) else "")
        mm, mdl, map_, _ = rc.parts(mo[k] if k < len(mo) else "")
        if pick(im) != pick(mm) or idl != mdl or iap != map_:
            return True
    return False


LEVEL_TEXT = ("Other (history-level proofs of one_return and of the first half of question_ids + differential run): proved for "
              "ALL histories of the machine of rpc.Conn -- for every answer id the Returns in the outbox never exceed the "
              "Bootstrap/Call messages accepted with it, and while the connection is up they are equal except for the at most "
              "one answer that still owes its Return (C06_one_return, by a balance invariant through every handler, with the "
              "answer table / queue invariants it needs); the Return sent when a local server returns carries that outcome "
              "(results vs exception, C06_return_is_targets); every Bootstrap/Call sent with a question id is matched by a Finish "
              "for it except the current use, and newQuestion hands out only ids whose slot is empty, so an id is never "
              "re-issued before its Finish is in the outbox (C06_question_ids, C06_new_question_is_free); no handler panics or "
              "blocks, in particular a Call pipelined on an unreturned answer (F14 refuted on the pre-fix machine). NOT proved: "
              "'each local call resolves exactly once' at history level and delivery_order (T2); both are covered by the "
              "differential run (scenarios + valid stream: pipelining on returned and unreturned answers, returns before/after "
              "later messages, embargo, cancel, id reuse; compared: Returns, ids, order seen by the instrumented servers, results "
              "seen by local callers, table occupancy). Found and repaired: F14, F23.")
LEVEL_NOTE = "See coq/Props/Properties_C06.v for the full statements and what is missing at each theorem."
