from rpc_common import *  # noqa
import rpc_common as rc

ID = "C06"
LEVEL = "proof"
COQ_TARGETS = ["Props/Properties_C06.vo", "Props/Properties_C06_order.vo"] + rc.COQ_COMMON
PROPS_FILES = ["Props/Properties_C06.v", "Props/Properties_C06_order.v"]
RUNS = [rc.run("rpc", "s,v,x", salt=6)]
DESIGN_REF = "DESIGN.md section 6, C06"
post = rc.make_post(ID, "rpc")


def violates(run, case, impl, model):
    """C06's predicate: Returns (ids, result class), Bootstrap/Call/Finish ids used by the Conn, the order
    in which the local servers see calls, and the results seen by local callers are the machine's."""
    if rc.crashed(impl):
        return True
    # every step, not only the first difference: a lost Disembargo (not itself a C06 message) shows as a
    # different delivery order some events later
    _, io, mo = rc.steps(case, impl, model)
    pick = lambda ms: sorted(re.sub(r",.*", "", x) for x in ms if x[0] in "RBCFD")
    for k in range(max(len(io), len(mo))):
        im, idl, iap, _ = rc.parts(io[k] if k < len(io) else "")
        mm, mdl, map_, _ = rc.parts(mo[k] if k < len(mo) else "")
        if pick(im) != pick(mm) or idl != mdl or iap != map_:
            return True
    return False


LEVEL_TEXT = ("Proof of the id / exactly-once half of the property for the machine of rpc.Conn (coq/Rpc/Rpc.v), at history level; "
              "delivery_order (T2) is proved PER HANDLER for all states of the machine (Properties_C06_order.v), not yet as one "
              "trace theorem (_partial, see LEVEL_NOTE): every incoming Call is, in its own handler, delivered as the next and only "
              "delivery (importedCap target: C06_delivery_order_direct; promisedAnswer whose answer has results: "
              "C06_delivery_order_pipelined_returned), or appended at the END of the answer queue when its answer has no results "
              "yet -- never delivered ahead (C06_delivery_order_pipelined_pending), or never delivered "
              "(C06_delivery_order_incoming: the three cases are exhaustive, so a Call that is not queued cannot be overtaken); the "
              "drain of the queue delivers a sublist of the drained list in list order as consecutive deliveries, and the drained "
              "list is a sublist of the queue (C06_delivery_order_drain_partial, C06_drained_list_in_queue_order); a local call is "
              "written as exactly one Call to its import / promised answer in its own handler, or delivered directly, or -- handle "
              "embargoed -- appended at the end of the held calls with nothing written or delivered (C06_delivery_order_outgoing, "
              "_outgoing_pipe, _unhold); the Disembargo for embargo e delivers exactly the calls held behind e, oldest first, as "
              "the next deliveries, and leaves other embargoes alone (C06_delivery_order_embargo); non-vacuity: "
              "C06_delivery_order_reached. no_sender_leak still has no separate theorem (see LEVEL_NOTE). Also proved for ALL histories of the machine: for every answer id the "
              "Returns in the outbox never exceed the Bootstrap/Call messages accepted with it, and while the connection is up "
              "they are equal except for the at most one answer that still owes its Return (C06_one_return); the step in which a "
              "local server returns sends a Return of the matching KIND (results / exception) with that answer's id "
              "(C06_return_is_targets, single step from a live state, reachable: C06_return_reached; the CONTENT of results is "
              "not in the machine beyond the capability descriptors); a Return resolves the local call of its question in the "
              "same step with class 'results' only if it is a results Return, 'error' otherwise (C06_return_resolves_kind); "
              "every Bootstrap/Call sent with a question id is matched by a Finish for it except the current use, and "
              "newQuestion hands out only ids whose slot is empty (C06_question_ids, C06_new_question_is_free); every local call "
              "resolves exactly once -- a safety statement: at every point of every history a call number that was handed out has "
              "exactly one of {a resolution in the outbox, an unfinished question, a running direct delivery, a place behind an "
              "embargo}, and after shutdown no question holds a call (C06_call_resolves_once, C06_shut_calls_resolved); no step "
              "of the machine panics or blocks (C06_answers_progress), in particular after a Call pipelined on an unreturned "
              "answer (C06_F14_refuted: the as-found machine wedges there). These are statements about rpc.Conn as far as the "
              "machine follows it: checked by the differential run (scenarios, valid stream, window histories with a second event "
              "inside a handler, fault histories with the wire oracle REUSE), and knowingly false for histories in which the "
              "peer answers a question whose Call is still being built (not late_free: C06_late_return_history, known finding "
              "'heldret'; no protocol-conforming peer can do that). Found and repaired: F14, F23, F27.")
LEVEL_NOTE = ("Gaps, plainly: (1) delivery_order [T2] is proved handler by handler (all states, cfg_fixed; no env_ok / late_free premise is "
              "needed) but NOT composed into one theorem over histories: missing are (a) the invariant that no other handler "
              "permutes the answer queue (every handler only removes entries or appends one at the end) and that app_return's "
              "deliveries are exactly its drain's, (b) that no handler other than Disembargo / shutdown lets a held (embargoed) call "
              "through, (c) the identification of a target with the local capability it denotes across id reuse. The "
              "differential run compares the order seen by every local server at every step, window histories included. (2) no_sender_leak [T1] has no theorem of its own: the machine has "
              "no sender-lock component; the only place where the as-found code kept the lock is modelled by a hand-placed Stuck "
              "(Rpc.v, handle_call, fx14), excluded for all histories by C06_answers_progress / C08_handlers_total and refuted on one "
              "history (C06_F14_refuted); that the real code's API exits hold no lock is C09_api_exits_hold_nothing. (3) Result content "
              "is not modelled (OReturnRes: id + descriptors; LAppRes: outcome class). (4) The theorems quantify over all histories of "
              "the MACHINE; machine and rpc.Conn differ on histories that are not late_free (a Return for a held, unsent question: "
              "rpc.Conn still writes the Call with the freed id). (5) question_ids first half is stated for a connection that is up; "
              "'exactly once' is safety, not liveness. (6) Inbound Disembargo with a senderLoopback context always aborts in the machine "
              "(answers hold local capabilities only), rpc.Conn can succeed for import results: Disembargo towards this vat is out of scope.")
