from rpc_common import *  # noqa
import rpc_common as rc

ID = "C06"
LEVEL = "other"
COQ_TARGETS = ["Props/Properties_C06.vo"] + rc.COQ_COMMON
PROPS_FILES = ["Props/Properties_C06.v"]
RUNS = [rc.run("rpc", "s,v", salt=6)]
DESIGN_REF = "DESIGN.md section 6, C06"
post = rc.make_post(ID, "rpc")


def violates(run, case, impl, model):
    """C06's predicate: Returns (ids, result class), Bootstrap/Call/Finish ids used by the Conn, the order
    in which the local servers see calls, and the results seen by local callers are the machine's."""
    if rc.crashed(impl):
        return True
    n, ev, i, m = rc.first_diff(case, impl, model)
    im, idl, iap, _ = rc.parts(i)
    mm, mdl, map_, _ = rc.parts(m)
    pick = lambda ms: sorted(re.sub(r",.*", "", x) for x in ms if x[0] in "RBCF")
    return pick(im) != pick(mm) or idl != mdl or iap != map_


LEVEL_TEXT = ("Other (proof of the handler-level parts + differential run): proved for the machine of rpc.Conn -- whenever an "
              "answer returns through sendException exactly one Return with its own id is sent and the answer cannot return "
              "again (one_return_partial); an answer that has not returned is always running or queued, no handler panics or "
              "blocks, in particular a Call pipelined on an unreturned answer (step invariant, F14 refuted on the pre-fix "
              "machine); a question id is freed only by handleReturn together with its Finish, or after the Finish sent at "
              "cancellation (question_ids_partial). NOT proved: the history-level forms of one_return / question_ids "
              "(induction tying returnSent and free ids to the outbox) and delivery_order; these are covered by the "
              "differential run only (scenarios + valid stream: pipelining on returned and unreturned answers, returns "
              "before/after later messages, embargo, cancel, id reuse; compared: Returns, ids, order seen by the instrumented "
              "servers, results seen by local callers, table occupancy). Found and repaired: F14, F23 (answerQueue resolved a "
              "call queued behind a queued call against the wrong answer).")
LEVEL_NOTE = "See coq/Props/Properties_C06.v for the full statements and what is missing at each theorem."
