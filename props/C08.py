from rpc_common import *  # noqa
import rpc_common as rc

ID = "C08"
LEVEL = "other"
COQ_TARGETS = ["Props/Properties_C08.vo"] + rc.COQ_COMMON
PROPS_FILES = ["Props/Properties_C08.v"]
RUNS = [rc.run("rpc", "s,m")]
DESIGN_REF = "DESIGN.md section 6, C08"


def violates(run, case, impl, model):
    """C08's predicate on the implementation: the process survives, the connection is not wedged,
    and the offending message is answered the way the protocol prescribes."""
    if rc.crashed(impl):
        return True
    n, ev, i, m = rc.first_diff(case, impl, model)
    im, _, _, _ = rc.parts(i)
    mm, _, _, _ = rc.parts(m)
    resp = lambda ms: sorted(x[:2] if x.startswith("R") else x[0] for x in ms if x[0] in "RUA")
    return resp(im) != resp(mm)


LEVEL_TEXT = "(filled in below)"
LEVEL_NOTE = ""
