from rpc_common import *  # noqa
import rpc_common as rc

ID = "C08"
LEVEL = "proof"
COQ_TARGETS = ["Props/Properties_C08.vo"] + rc.COQ_COMMON
PROPS_FILES = ["Props/Properties_C08.v"]
RUNS = [rc.run("rpc", "s,m")]
DESIGN_REF = "DESIGN.md section 6, C08"
post = rc.make_post(ID, "rpc")


def violates(run, case, impl, model):
    """C08's predicate on the implementation: the process survives, the connection is not wedged,
    and the offending message is answered the way the protocol prescribes."""
    if rc.crashed(impl):
        return True
    n, ev, i, m = rc.first_diff(case, impl, model)
    im, _, _, _ = rc.parts(i)
    mm, _, _, _ = rc.parts(m)
    resp = lambda ms: sorted(x[:2] if x.startswith("R") else x[0] for x in ms if x[0] in "RUA")
    return resp(im) != resp(mm)


LEVEL_TEXT = ("Proof: for ALL lists of events (peer messages of every kind with arbitrary field values, application "
              "actions respecting the stated environment assumption) the machine of rpc.Conn never panics and no handler "
              "blocks (handlers_total, by an invariant over single steps); every offending message is answered exactly as "
              "the protocol prescribes -- Abort plus complete shutdown / one Unimplemented / one exception Return "
              "(response_class); shutdown from ANY state is panic-free and empties all tables (shutdown_total). The machine is "
              "tied to rpc/*.go by a differential run on scenario and malformed histories (bad ids, absent exports, null "
              "payloads, unknown union members, byte-level corruption), each history in a child process so that crashes and "
              "wedges are observations. Found and repaired through it: F15, F16, F17 and the new F21 (self-deadlock in "
              "recvPayload), F22 (embargo lift panic), F24 (self-targeting call), F25 (null Call/Return struct); F26 (a call on "
              "an exported embargoed capability blocks the receive loop) is a known finding outside the environment assumption.")
LEVEL_NOTE = ("Handler granularity: one event is run to quiescence; interleavings inside a handler and transport faults are "
              "C09's. The model is hand-written; idgen overflow (2^32-1 ids) is excluded by hypothesis. 'Local callers get errors "
              "rather than hangs' is C08_local_calls_resolve / C08_shut_calls_resolved (= C06_call_resolves_once / "
              "C06_shut_calls_resolved: safety -- every call has exactly one resolution or holder, none is held by a question after "
              "shutdown). Events are messages whose segment table and root pointer are readable: frames that are corrupt at that level "
              "never become events (the transport rejects them: C01/C09); 'byte-level corruption' in the malformed stream is corruption "
              "below the root. 'Exactly one Unimplemented' holds for messages the Conn can copy into the reply; an unknown message "
              "that cannot be copied is projected to the event MGarbage, for which no answer is prescribed. An inbound Disembargo with "
              "senderLoopback context always aborts in the machine (rpc.Conn can succeed when the answer's results are imports: not "
              "reachable in the machine, whose answers hold local capabilities only).")
