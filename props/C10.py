import re

ID = "C10"
LEVEL = "proof"
COQ_TARGETS = ["Props/Properties_C10.vo", "Extract/ExtractCap.vo", "Cap/CapRefuted.vo"]
PROPS_FILES = ["Props/Properties_C10.v"]
RUNS = [dict(name="cap", harness="c10", driver="cap", model_ml="cap_model", timeout=3000)]
EXPLANATION = ("Small-step model of capability.go (Client/clientHook/ClientPromise/WeakClient) with explicit mutexes; "
               "invariants proved over all interleavings; the model is tied to the code by driving goroutines inside a "
               "synctest bubble through explicit schedules (verif-tagged yield points before every Lock) and replaying the "
               "same schedule on the extracted model.")
TRUSTED = ["model coq/Cap/Cap.v hand-written from capability.go; step = one mutex acquisition plus the code up to the next "
           "acquisition (reduction argument in the file header)",
           "harness scheduler: enabledness of a paused goroutine is probed with sync.Mutex.TryLock; goroutine identity via runtime.Stack"]
MODELLED = ["sync.Mutex (free/held), channels done/resolved (closed flag; close of a closed channel = panic)",
            "application ClientHook (Send/Recv end when the environment says so, by return or by panic/Goexit recovered by the caller; Shutdown returns)"]
ASSUMPTIONS = ["the client passed to ClientPromise.Fulfill is not released before Fulfill returns (otherwise the model sets `misuse`)",
               "promises are not resolved into a cycle (the model flags it as misuse)", "a WeakClient value is not used by two goroutines at once"]


def _parse(obs):
    f = obs.split()
    d = {"status": f[0] if f else "", "E": [], "R": "", "H": [], "M": "", "misuse": "misuse" in f}
    for x in f[1:]:
        if x.startswith("E:"):
            d["E"] = [e for e in x[2:].split(",") if e]
        elif x.startswith("R:"):
            d["R"] = x[2:]
        elif x.startswith("H:"):
            d["H"] = [tuple(int(v) for v in h.split(".")) for h in x[2:].split(",") if h]
        elif x.startswith("M:"):
            d["M"] = x[2:]
    return d


def classify(run, case, impl, model):
    i, m = _parse(impl), _parse(model)
    diff = [k for k in ("status", "E", "R", "H", "M") if i[k] != m[k]]
    return "%s/impl=%s/model=%s/diff=%s%s" % (case.split()[0], i["status"].split("@")[0], m["status"].split("@")[0],
                                              "+".join(diff), "/misuse" if "unexpected-misuse" in model else "")


def violates(run, case, impl, model):
    """Does the implementation's observed behaviour break the property (not merely differ)?"""
    i, m = _parse(impl), _parse(model)
    if case.split()[0] == "mis" or "unexpected-misuse" in model:
        return False   # the generator broke the caller contract on purpose (model faithfulness only)
    if i["status"] in ("hang", "stuck") or i["status"].startswith("harness-panic"):
        return True
    shut = set()
    for e in i["E"]:
        h = e[1:]
        if e[0] == "X":
            if h in shut:
                return True          # second Shutdown
            shut.add(h)
        elif h in shut:
            return True              # call delivered after Shutdown
    if "?" in i["R"]:
        return True                  # call through a dead client without an error answer
    for (refs, calls, done, s) in i["H"]:
        if s > 1 or refs < 0 or calls < 0 or (s >= 1 and refs > 0):
            return True
        if i["status"] == "done" and ((refs == 0) != (s == 1) or calls != 0):
            return True
    if i["R"].count("P") > m["R"].count("P"):
        return True                  # a panic the model (which panics where the API says so) does not have
    return False


LEVEL_TEXT = ("Proof (Coq, no axioms) over ALL thread programs and ALL interleavings of a small-step model of capability.go with "
              "explicit per-client and per-hook mutexes (resolveHook's hand-over-hand walk one step per hop): an inductive invariant "
              "(exact reference accounting along resolution chains, call accounting, done/Shutdown protocol, mutex protocol), "
              "well-formedness of ids and acyclicity of the resolution graph are preserved by every step; from them: Shutdown of a "
              "hook runs at most once, and exactly once by the time all operations have finished iff its reference count is 0 "
              "(shutdown_once); at the Shutdown step refs = 0, calls = 0 and no live client resolves to the hook "
              "(shutdown_after_last); every unlocked hook's refs equals the number of live clients resolving to it and Fulfill "
              "moves the promised hook's references to the target (refs_transfer, refs_transfer_step); a released client whose "
              "mutex is free has no hook (released_no_hook), and a call on a nil client, on a released client (once it holds the "
              "client's mutex) and on a client whose chain ends in a promise resolved to nil ends with the error result, emits no "
              "event and touches no hook (null_released_error = dead_client_calls, three cases); a call is delivered only to a "
              "hook that holds a reference, has h_shut = 0 and an open done channel, h_shut equals the number of Shutdown events in "
              "the log, hence no call is delivered after the hook's Shutdown (call_delivered_live, shut_counts_events, "
              "no_call_after_shutdown); every "
              "reachable configuration with an unfinished thread has an enabled step (no_stuck: deadlock freedom; chains of "
              "concurrent Fulfill transfer walks are ordered by a ranking of the acyclic resolution graph); the step relation is "
              "well-founded (terminates: no infinite execution; quiescent_all_finished: a run that cannot continue has finished all "
              "operations; own_steps_decrease: the per-call measure stage*D + rank of the "
              "hook about to be locked). The pre-fix Fulfill is kept as model variant fixed=false with the machine-found "
              "witness (C10_prefix_refuted). The model is tied to the code by replaying, on the extracted model, the exact "
              "schedules through which the harness drives the real goroutines (synctest + verif yield points), comparing events, "
              "result classes, per-hook refs/calls/done/shutdown counts and the enabled-thread set before every step.")
LEVEL_NOTE = ("CARVE-OUT: all theorems are for executions in which the callers keep the API contract (model flag misuse = false). "
              "Outside it the IMPLEMENTATION VIOLATES THE PROPERTY AS QUANTIFIED ('any interleaving'): a promise fulfilled with a "
              "client of itself is shut down with refs > 0 and a later Release panics (close of closed channel) holding both "
              "mutexes; Release(c) concurrent with Fulfill(_, c) can shut the target down while referenced. These are treated as "
              "caller errors, not proved safe. Also not modelled: Client.Resolve, Client.String, API calls made re-entrantly from "
              "inside a call-out; Client.State's IsPromise value under a racing Fulfill (the code reads isResolved() after "
              "Unlock, the model inside the locked section; nothing else depends on it). The contract: the client "
              "passed to Fulfill stays unreleased during the call, and a promise is never fulfilled with a client that "
              "(transitively) resolves to that promise (the model's cycle check may also flag when its fuel = number of hooks runs "
              "out, which cannot happen on an acyclic graph but is not proved). A WeakClient value is used by one goroutine at a "
              "time. Application call-outs are assumed to return (their return is a step of the model). Defect found and fixed: "
              "ClientPromise.Fulfill released the promise hook's mutex before locking the target.")
TECHNIQUE = "Coq invariant proofs over a small-step interleaving model + schedule-replay correspondence under synctest"
DESIGN_REF = "DESIGN.md section 6, C10"
