import re

ID = "C10"
LEVEL = "other"
COQ_TARGETS = ["Props/Properties_C10.vo", "Extract/ExtractCap.vo", "Cap/CapRefuted.vo"]
PROPS_FILES = ["Props/Properties_C10.v"]
RUNS = [dict(name="cap", harness="c10", driver="cap", model_ml="cap_model", timeout=3000)]
EXPLANATION = ("Small-step model of capability.go (Client/clientHook/ClientPromise/WeakClient) with explicit mutexes; "
               "invariants proved over all interleavings; the model is tied to the code by driving goroutines inside a "
               "synctest bubble through explicit schedules (verif-tagged yield points before every Lock) and replaying the "
               "same schedule on the extracted model.")
TRUSTED = ["model coq/Cap/Cap.v hand-written from capability.go; step = one mutex acquisition plus the code up to the next "
           "acquisition (reduction argument in the file header)",
           "harness scheduler: enabledness of a paused goroutine is probed with sync.Mutex.TryLock; goroutine identity via runtime.Stack"]
MODELLED = ["sync.Mutex (free/held), channels done/resolved (closed flag; close of a closed channel = panic)",
            "application ClientHook (Send/Recv return when the environment says so; Shutdown returns)"]
ASSUMPTIONS = ["the client passed to ClientPromise.Fulfill is not released before Fulfill returns (otherwise the model sets `misuse`)",
               "promises are not resolved into a cycle", "a WeakClient value is not used by two goroutines at once"]


def _parse(obs):
    f = obs.split()
    d = {"status": f[0] if f else "", "E": [], "R": "", "H": [], "M": "", "misuse": "misuse" in f}
    for x in f[1:]:
        if x.startswith("E:"):
            d["E"] = [e for e in x[2:].split(",") if e]
        elif x.startswith("R:"):
            d["R"] = x[2:]
        elif x.startswith("H:"):
            d["H"] = [tuple(int(v) for v in h.split(".")) for h in x[2:].split(",") if h]
        elif x.startswith("M:"):
            d["M"] = x[2:]
    return d


def classify(run, case, impl, model):
    i, m = _parse(impl), _parse(model)
    diff = [k for k in ("status", "E", "R", "H", "M") if i[k] != m[k]]
    return "%s/impl=%s/model=%s/diff=%s%s" % (case.split()[0], i["status"].split("@")[0], m["status"].split("@")[0],
                                              "+".join(diff), "/misuse" if "unexpected-misuse" in model else "")


def violates(run, case, impl, model):
    """Does the implementation's observed behaviour break the property (not merely differ)?"""
    i, m = _parse(impl), _parse(model)
    if case.split()[0] == "mis" or "unexpected-misuse" in model:
        return False   # the generator broke the caller contract on purpose (model faithfulness only)
    if i["status"] in ("hang", "stuck") or i["status"].startswith("harness-panic"):
        return True
    shut = set()
    for e in i["E"]:
        h = e[1:]
        if e[0] == "X":
            if h in shut:
                return True          # second Shutdown
            shut.add(h)
        elif h in shut:
            return True              # call delivered after Shutdown
    if "?" in i["R"]:
        return True                  # call through a dead client without an error answer
    for (refs, calls, done, s) in i["H"]:
        if s > 1 or refs < 0 or calls < 0 or (s >= 1 and refs > 0):
            return True
        if i["status"] == "done" and ((refs == 0) != (s == 1) or calls != 0):
            return True
    if i["R"].count("P") > m["R"].count("P"):
        return True                  # a panic the model (which panics where the API says so) does not have
    return False


LEVEL_TEXT = ("Proof (Coq, no axioms) over ALL thread programs and ALL interleavings of a small-step model of capability.go with "
              "explicit per-client and per-hook mutexes: an inductive invariant (exact reference accounting along resolution "
              "chains, call accounting, done/Shutdown protocol, mutex protocol) is preserved by every step; from it: Shutdown of a "
              "hook runs at most once, and exactly once by the time all operations have finished iff its reference count is 0 "
              "(shutdown_once); at the Shutdown step refs = 0, calls = 0 and no live client resolves to the hook "
              "(shutdown_after_last); every unlocked hook's refs equals the number of live clients resolving to it and Fulfill "
              "moves the promised hook's references to the target (refs_transfer, refs_transfer_step); calls through "
              "nil/released/null-resolved clients end with the error result without touching a hook (null_released_error). "
              "Deadlock freedom is proved only in part (no_stuck_partial: configurations without a Fulfill inside its transfer "
              "walk, ids well-formed); hence level `other`. The pre-fix Fulfill is kept as model variant fixed=false with the "
              "machine-found double-use witness (C10_prefix_refuted). The model is tied to the code by replaying, on the extracted "
              "model, the exact schedules through which the harness drives the real goroutines (synctest + verif yield points), "
              "comparing events, result classes, per-hook refs/calls/done/shutdown counts and the enabled-thread set before every step.")
LEVEL_NOTE = ("no_stuck (deadlock freedom) is not proved at full strength: missing are the well-formedness of ids as an invariant and "
              "the acyclicity argument for chains of concurrent Fulfill transfer walks; assumptions: the Fulfill argument stays "
              "unreleased during the call, no resolution cycles, one goroutine per WeakClient value. Defect found and fixed: "
              "ClientPromise.Fulfill released the promise hook's mutex before locking the target (repo commit 'fix: ClientPromise.Fulfill ...').")
TECHNIQUE = "Coq invariant proofs over a small-step interleaving model + schedule-replay correspondence under synctest"
DESIGN_REF = "DESIGN.md section 6, C10"
