import os, sys
sys.path.insert(0, os.path.dirname(os.path.abspath(__file__)))
import build_common as bc

ID = "C16"
LEVEL = "proof"
COQ_TARGETS = ["Props/Properties_C16.vo", "Props/Properties_C16_indep.vo", "Props/Properties_C16_closure.vo", "Extract/ExtractBuild.vo"]
PROPS_FILES = ["Props/Properties_C16.v", "Props/Properties_C16_indep.v", "Props/Properties_C16_closure.v"]
RUNS = [dict(name="copy", harness="c04", driver="build", model_ml="build_model", harness_args=["-mode", "c16"])]
EXPLANATION = ("Theorems about writePtr's copy branches and copyStruct (frame_all: mutual induction over the copy recursion for all source trees, arenas, capacities): copies live in storage allocated during the call, the source is untouched; data-section truncation / zero-extension; capability re-homing appends exactly one table entry. Differential run with sources built by the library, mutated, cyclic and raw, small traversal/depth limits, version skew in SetStruct/CopyFrom, mutations on both sides and re-walks.")
TRUSTED = ["models coq/Core/Builder.v (alloc, arenas, nextAlloc, constructors, setters, writePtr, copyStruct), coq/Core/BuildOps.v "
           "(op-list interpreter) and coq/Core/Reader.v hand-written from message.go / segment.go / struct.go / list.go / capability.go; "
           "tied to the code by the differential run only",
           "coq/Core/BuildValid.v (strict validity predicate + spec-style tree decoder) is written from the encoding document; it is "
           "executed, not proved equal to Spec.v's decoder",
           "repo hook verif_builder.go (read-only Client reference count), verif_ptrinfo.go, verif_export.go"]
MODELLED = ["Go slices (a segment is a byte list + a capacity; writes beyond len are impossible by construction)",
            "capability clients are abstract ids (the harness gives each client its id as Brand)",
            "Marshal/Unmarshal/packed/Encoder/Decoder paths are exercised by the harness (rt op: all five paths must give the same "
            "tree and Marshal must equal the frame computed from the segments); their model is C13/C14's"]
ASSUMPTIONS = ["64-bit int; segments < 2^32 bytes, segment count < 2^32; bytes are 0..255",
               "a failed pointer-writing / allocating op ends the compared run (the model keeps no state for a failed op)",
               "fuel of write_ptr/copy_struct: theorems are about Ok results, which are never produced by fuel exhaustion"]
TECHNIQUE = "Coq proof over an executable model + extracted-model/implementation differential run"
LEVEL_TEXT = ("Proof of the T1 theorems for all source trees, arenas, capacities and both version-skew directions: copy_struct_ptrs "
              "(exact frame of copyStruct: only the destination's data section and own pointer slots change, source pointers beyond "
              "the destination's count are dropped, destination slots beyond the source's count are null, data section truncated / "
              "zero-extended), copy_fresh / copy_struct_frame / write_ptr_frame from frame_all (mutual induction over the copy "
              "recursion: a copy lives in storage allocated during the call, the source message is untouched, later writes to "
              "either side never show through), cap_copy (exactly one new table entry holding the source's client). Differential "
              "run: every copy agrees byte for byte with the model, incl. capability table contents and client reference counts, "
              "trees of both sides before/after mutations.")
LEVEL_NOTE = ("T2 ('the copy is equal and independent') is proved in two halves, each with restrictions. VALUE HALF "
              "(C16_copy_value_*, eqcanon engineer): the slot written reads as the value the source denotes, resized for "
              "version skew, ONLY for (1) a single-segment destination (no far / double-far placement inside the copy), "
              "(2) copies from another message (InSrc), not copies inside one message, (3) capability-free source trees "
              "(cvdom; the single-segment view has no capability table), (4) word-aligned sources (aligned / caligned: not the "
              "sub-word member structs of 1/2/4-byte lists). Outside these four the equality of the trees is checked per "
              "program by the runs. INDEPENDENCE HALF (Properties_C16_indep.v, any arena): C16_copy_independent is a byte-level "
              "frame property of the table invariant for any split of the object table into older and newer entries (a write "
              "inside an entry of one part changes no byte of the other); it does not mention write_ptr. The split and the "
              "non-shallowness come from C16_forced_copy_fresh: whenever writePtr copies inside one message (forceCopy - set by "
              "copyStruct for every pointer it copies - or a list-member source; non-empty struct or list), the object table grows "
              "by an entry h that starts at the old end of its segment, is disjoint from every older object incl. the source, "
              "and the slot written resolves to exactly h. THE CLOSURE IS NOW ONE THEOREM (Properties_C16_closure.v, coq/Core/CopyClosure.v): C16_copy_closure - for every copying writePtr inside one message (forceCopy or list-member source; non-empty struct or list), every fuel, arena and table, the table grows by h :: eo such that the slot written holds a pointer placed to h, every new entry starts at or beyond the end its segment had before the call (hence is disjoint from every older entry), and h :: eo is closed: every pointer slot of every new entry holds null, the inline empty struct, a capability index or a pointer placed to a new entry - proved by re-doing the mutual induction of C05_copy_all with that conclusion (C16_closure_all). NOT proved: the same closure stated for a top-level copyStruct (SetStruct / CopyFrom) including the destination struct's own slots as one theorem (C16_closure_all covers the new entries; each destination slot is one copying writePtr, i.e. one instance of C16_copy_closure); the corollary 'a sequence of setters on one side changes no byte of the other side' is C16_copy_independent applied to the split objs | h :: eo per step, not restated for sequences; for copies from another message deepness follows from "
              "the value half within its four restrictions. Proved without restriction: the byte-level frame (C16_copy_fresh: "
              "no older byte but the pointer word changes), no builder op writes the source message (C16_copy_keeps_source, "
              "C16_source_unchanged), source-side setters do not write the destination. The +1 reference of a re-homed "
              "capability is observed through the hook VerifRefs and compared with the table contents, not modelled in Coq "
              "(Cap.v is C10's).")
DESIGN_REF = "DESIGN.md section 6, C16"

classify = bc.classify


def impl_violation(run, case, impl):
    return bc.impl_violation(run, case, impl) is not None


def violates(run, case, impl, model):
    # the compared observables are result classes, segment bytes / lengths / capacities, the
    # capability table and read-back values: any difference from the model (whose behaviour the
    # theorems describe), or a failed oracle (read-back, written tree, independence, round
    # trip, validity), is a property violation of the implementation at this input
    return True

# ---- L0b: kernel-checked agreement of the arithmetic this property's model restates with the
# ---- Go source (coq/Gen/GoArith2.v is regenerated by gotrans on every run; see docs/gotrans.md)
import l0_common as _l0
COQ_TARGETS = list(COQ_TARGETS) + _l0.COQ_TARGETS2_BY_OWNER["C16"]
EXTRA_OBLIGATIONS = list(globals().get("EXTRA_OBLIGATIONS", [])) + _l0.EXTRA_OBLIGATIONS2_BY_OWNER["C16"]
_l0_prev_generate = globals().get("generate")


def generate(res):
    notes = list(_l0_prev_generate(res) or []) if (_l0_prev_generate and _l0_prev_generate is not _l0.generate) else []
    return notes + list(_l0.generate(res) or [])
