import os, sys
sys.path.insert(0, os.path.dirname(os.path.abspath(__file__)))
import build_common as bc

ID = "C16"
CLAIM = False  # work in progress
LEVEL = "other"
COQ_TARGETS = ["Extract/ExtractBuild.vo"]
PROPS_FILES = []
RUNS = [dict(name="copy", harness="c04", driver="build", model_ml="build_model", harness_args=["-mode", "c16"])]
EXPLANATION = "work in progress"
TRUSTED = []
MODELLED = []
ASSUMPTIONS = []
LEVEL_TEXT = "wip"
LEVEL_NOTE = "wip"
TECHNIQUE = "Coq proof over an executable model + extracted-model/implementation differential run"
DESIGN_REF = "DESIGN.md section 6, C16"

classify = bc.classify


def impl_violation(run, case, impl):
    return bc.impl_violation(run, case, impl) is not None


def violates(run, case, impl, model):
    return True
