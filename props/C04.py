import os, sys
sys.path.insert(0, os.path.dirname(os.path.abspath(__file__)))
import build_common as bc

ID = "C04"
LEVEL = "proof"
COQ_TARGETS = ["Props/Properties_C04.vo", "Extract/ExtractBuild.vo"]
PROPS_FILES = ["Props/Properties_C04.v"]
RUNS = [dict(name="build", harness="c04", driver="build", model_ml="build_model", harness_args=["-mode", "c04"])]
EXPLANATION = ('Theorems over all arena kinds/capacities/values about the Gallina model of the builder (alloc_fresh, nextAlloc_facts, setter_frame with read-back for every data setter, write_read_ptr for near/far/double-far placement with frame, non-vacuity examples); the model is tied to the code by running the extracted op-list interpreter and the real builder API on the same adaptive / tree-derived programs and comparing every result, byte-for-byte dumps (segments, lengths, capacities, capability table) and read-back trees.')
TRUSTED = ["models coq/Core/Builder.v (alloc, arenas, nextAlloc, constructors, setters, writePtr, copyStruct), coq/Core/BuildOps.v "
           "(op-list interpreter) and coq/Core/Reader.v hand-written from message.go / segment.go / struct.go / list.go / capability.go; "
           "tied to the code by the differential run only",
           "coq/Core/BuildValid.v (strict validity predicate + spec-style tree decoder) is written from the encoding document; it is "
           "executed, not proved equal to Spec.v's decoder",
           "repo hook verif_builder.go (read-only Client reference count), verif_ptrinfo.go, verif_export.go"]
MODELLED = ["Go slices (a segment is a byte list + a capacity; writes beyond len are impossible by construction)",
            "capability clients are abstract ids (the harness gives each client its id as Brand)",
            "Marshal/Unmarshal/packed/Encoder/Decoder paths are exercised by the harness (rt op: all five paths must give the same "
            "tree and Marshal must equal the frame computed from the segments); their model is C13/C14's"]
ASSUMPTIONS = ["64-bit int; segments < 2^32 bytes, segment count < 2^32; bytes are 0..255",
               "a failed pointer-writing / allocating op ends the compared run (the model keeps no state for a failed op)",
               "fuel of write_ptr/copy_struct: theorems are about Ok results, which are never produced by fuel exhaustion"]
TECHNIQUE = "Coq proof over an executable model + extracted-model/implementation differential run"
LEVEL_TEXT = ("Proof of the T1 theorems: allocation returns fresh zeroed aligned storage inside len<=cap and changes no existing byte (single-segment regrowth, new multi-segment segments); every data setter changes exactly its field and reads back; the pointer word(s) written by writePtr's placement switch (near / far+pad / double-far) are resolved by the reader model to exactly the target, changing only the pointer word and appended pads. Differential run: model == implementation on every op of random builder programs; independent oracles: setter read-back, written value tree == read tree, same tree after Marshal/Unmarshal, packed, Encoder/Decoder.")
LEVEL_NOTE = ("What is proved and what is not. READ-BACK: data fields (setter read-back, frames), text/data (C04_new_bytes_read_back), "
              "pointers: C04_write_read_ptr* at write time; for every state of every program the table invariant holds "
              "(C04_reachable_sinv) and readPtr at any table slot (a) succeeds under depth limit <> 0 and a read limit covering "
              "the table objects (C04_read_slot_total, C04_read_object_total: structs, all list kinds incl. composite lists, "
              "capability slots = capability read-back) and (b) whatever it returns is the null handle, the empty struct, the "
              "capability or the handle of the object stored (C04_read_slot, C04_read_back_handle). HISTORY: every op has the "
              "frame touch(state, op), every run is a chain of frames, the last setter on a data field / the last pointer setter "
              "on a slot is what is read back whatever other ops follow (C04_step_frame, C04_run_chain, C04_run_last_write_wins, "
              "C04_run_last_pointer_wins - the pointer version is conditional on readPtr returning a handle; combine with "
              "C04_read_slot_total for the limits). SERIALISATION, at the segment level: C04_bytes_inv_sublang (every byte of every "
              "reachable state is in 0..255; sub_prog requires NewData / NewTextFromBytes arguments to be bytes) and "
              "C04_all_paths_states: for every state of the table invariant whose bytes are bytes, with <= 512 segments and a frame "
              "within the Decoder's size limit, Marshal, Encoder, MarshalPacked, packed Encoder succeed and Unmarshal, "
              "UnmarshalPacked and the stream Decoders (plain over any chunking, packed over any reader behaviour) return exactly "
              "the segments built - hence the same reads; C04_marshal_roundtrip_states is the unpacked part up to 2^30-1 segments "
              "(from C14_unmarshal_roundtrip, C14_encode_is_marshal, all_paths_same_segments). Not modelled: Marshal's own loading "
              "of the segments from the arena (message.go) - runs only. NOT STATED: the whole-program refinement builder_refines "
              "to an abstract-store interpreter (the tree-mode programs check it dynamically), so 'same TREE' after the round "
              "trips is 'same segments, hence same result of every read' - a tree-valued statement is checked by the runs; the "
              "bytes_ok premise of the older bit-setter read-back theorems is now discharged by C04_bytes_inv_sublang; nothing is "
              "claimed about the message "
              "after a failed pointer setter / constructor (the run ends there).")
DESIGN_REF = "DESIGN.md section 6, C04"

classify = bc.classify


def impl_violation(run, case, impl):
    return bc.impl_violation(run, case, impl) is not None


def violates(run, case, impl, model):
    # the compared observables are result classes, segment bytes / lengths / capacities, the
    # capability table and read-back values: any difference from the model (whose behaviour the
    # theorems describe), or a failed oracle (read-back, written tree, independence, round
    # trip, validity), is a property violation of the implementation at this input
    return True

# ---- L0b: kernel-checked agreement of the arithmetic this property's model restates with the
# ---- Go source (coq/Gen/GoArith2.v is regenerated by gotrans on every run; see docs/gotrans.md)
import l0_common as _l0
COQ_TARGETS = list(COQ_TARGETS) + _l0.COQ_TARGETS2_BY_OWNER["C04"]
EXTRA_OBLIGATIONS = list(globals().get("EXTRA_OBLIGATIONS", [])) + _l0.EXTRA_OBLIGATIONS2_BY_OWNER["C04"]
_l0_prev_generate = globals().get("generate")


def generate(res):
    notes = list(_l0_prev_generate(res) or []) if (_l0_prev_generate and _l0_prev_generate is not _l0.generate) else []
    return notes + list(_l0.generate(res) or [])

# ---- tree layer (see props/C05.py, Props/Properties_C05_tree.v): what is proved towards builder_refines
LEVEL_NOTE = LEVEL_NOTE + (
    " TREE LAYER (stated under C05, Properties_C05_tree.v): single level only - in every reachable state the encoding "
    "specification's resolver (Spec.spec_resolve, strict) maps every pointer slot of every table object and the root to null, a "
    "capability, a zero-sized target or exactly the spec target of one table object (C05_tree_slots_sublang, from the new bridge "
    "C05_resolve_ptr_is_spec), and the spec decoder's struct data / primitive list elements are the segment bytes at the "
    "object's address (C05_spec_struct_data, C05_spec_list_elem). builder_refines itself (abstract-store interpreter, abs_step, "
    "whole-tree equality by induction on fuel) is still NOT STATED / NOT PROVED; the tree equality remains checked by the runs.")
