import os, sys
sys.path.insert(0, os.path.dirname(os.path.abspath(__file__)))
import build_common as bc

ID = "C04"
LEVEL = "proof"
COQ_TARGETS = ["Props/Properties_C04.vo", "Extract/ExtractBuild.vo"]
PROPS_FILES = ["Props/Properties_C04.v"]
RUNS = [dict(name="build", harness="c04", driver="build", model_ml="build_model", harness_args=["-mode", "c04"])]
EXPLANATION = ('Theorems over all arena kinds/capacities/values about the Gallina model of the builder (alloc_fresh, nextAlloc_facts, setter_frame with read-back for every data setter, write_read_ptr for near/far/double-far placement with frame, non-vacuity examples); the model is tied to the code by running the extracted op-list interpreter and the real builder API on the same adaptive / tree-derived programs and comparing every result, byte-for-byte dumps (segments, lengths, capacities, capability table) and read-back trees.')
TRUSTED = ["models coq/Core/Builder.v (alloc, arenas, nextAlloc, constructors, setters, writePtr, copyStruct), coq/Core/BuildOps.v "
           "(op-list interpreter) and coq/Core/Reader.v hand-written from message.go / segment.go / struct.go / list.go / capability.go; "
           "tied to the code by the differential run only",
           "coq/Core/BuildValid.v (strict validity predicate + spec-style tree decoder) is written from the encoding document; it is "
           "executed, not proved equal to Spec.v's decoder",
           "repo hook verif_builder.go (read-only Client reference count), verif_ptrinfo.go, verif_export.go"]
MODELLED = ["Go slices (a segment is a byte list + a capacity; writes beyond len are impossible by construction)",
            "capability clients are abstract ids (the harness gives each client its id as Brand)",
            "Marshal/Unmarshal/packed/Encoder/Decoder paths are exercised by the harness (rt op: all five paths must give the same "
            "tree and Marshal must equal the frame computed from the segments); their model is C13/C14's"]
ASSUMPTIONS = ["64-bit int; segments < 2^32 bytes, segment count < 2^32; bytes are 0..255",
               "a failed pointer-writing / allocating op ends the compared run (the model keeps no state for a failed op)",
               "fuel of write_ptr/copy_struct: theorems are about Ok results, which are never produced by fuel exhaustion"]
TECHNIQUE = "Coq proof over an executable model + extracted-model/implementation differential run"
LEVEL_TEXT = ("Proof of the T1 theorems: allocation returns fresh zeroed aligned storage inside len<=cap and changes no existing byte (single-segment regrowth, new multi-segment segments); every data setter changes exactly its field and reads back; the pointer word(s) written by writePtr's placement switch (near / far+pad / double-far) are resolved by the reader model to exactly the target, changing only the pointer word and appended pads. Differential run: model == implementation on every op of random builder programs; independent oracles: setter read-back, written value tree == read tree, same tree after Marshal/Unmarshal, packed, Encoder/Decoder.")
LEVEL_NOTE = ("T2 read_back is proved step-wise over the object table of the C05 sub-language (C04_read_back_data, C04_read_back_ptr: written bytes / slot target read back, every other object byte and every other slot target unchanged); history level (HeapHistory.v): over any chain of steps with frames the last setter on a data field / the last pointer setter on a slot is what is read back, other objects are untouched (C04_last_write_wins, C04_last_pointer_wins, C04_other_regions_unchanged), every op of the interpreter has the frame touch(state, op) and every run is such a chain (C04_step_frame, C04_run_chain), hence for every program a data field reads back the last setter's value whatever other ops follow, and a pointer slot the last pointer setter's object (C04_run_last_write_wins, C04_run_last_pointer_wins); the whole-program refinement builder_refines to an abstract-store interpreter is not stated, the tree-mode programs check it dynamically; the reader model's readPtr is tied to the table for every state hinv describes (C04_read_slot) and returns exactly the object set after a pointer setter (C04_read_back_handle, composite lists included). marshal_roundtrip is C14's theorem.")
DESIGN_REF = "DESIGN.md section 6, C04"

classify = bc.classify


def impl_violation(run, case, impl):
    return bc.impl_violation(run, case, impl) is not None


def violates(run, case, impl, model):
    # the compared observables are result classes, segment bytes / lengths / capacities, the
    # capability table and read-back values: any difference from the model (whose behaviour the
    # theorems describe), or a failed oracle (read-back, written tree, independence, round
    # trip, validity), is a property violation of the implementation at this input
    return True

# ---- L0b: kernel-checked agreement of the arithmetic this property's model restates with the
# ---- Go source (coq/Gen/GoArith2.v is regenerated by gotrans on every run; see docs/gotrans.md)
import l0_common as _l0
COQ_TARGETS = list(COQ_TARGETS) + _l0.COQ_TARGETS2_BY_OWNER["C04"]
EXTRA_OBLIGATIONS = list(globals().get("EXTRA_OBLIGATIONS", [])) + _l0.EXTRA_OBLIGATIONS2_BY_OWNER["C04"]
_l0_prev_generate = globals().get("generate")


def generate(res):
    notes = list(_l0_prev_generate(res) or []) if (_l0_prev_generate and _l0_prev_generate is not _l0.generate) else []
    return notes + list(_l0.generate(res) or [])
