import os, sys
sys.path.insert(0, os.path.dirname(os.path.abspath(__file__)))
import build_common as bc

ID = "C04"
LEVEL = "proof"
COQ_TARGETS = ["Props/Properties_C04.vo", "Extract/ExtractBuild.vo"]
PROPS_FILES = ["Props/Properties_C04.v"]
RUNS = [dict(name="build", harness="c04", driver="build", model_ml="build_model", harness_args=["-mode", "c04"])]
EXPLANATION = ('Theorems over all arena kinds/capacities/values about the Gallina model of the builder (alloc_fresh, nextAlloc_facts, setter_frame with read-back for every data setter, write_read_ptr for near/far/double-far placement with frame, non-vacuity examples); the model is tied to the code by running the extracted op-list interpreter and the real builder API on the same adaptive / tree-derived programs and comparing every result, byte-for-byte dumps (segments, lengths, capacities, capability table) and read-back trees.')
TRUSTED = ["models coq/Core/Builder.v (alloc, arenas, nextAlloc, constructors, setters, writePtr, copyStruct), coq/Core/BuildOps.v "
           "(op-list interpreter) and coq/Core/Reader.v hand-written from message.go / segment.go / struct.go / list.go / capability.go; "
           "tied to the code by the differential run only",
           "coq/Core/BuildValid.v (strict validity predicate + spec-style tree decoder) is written from the encoding document; it is "
           "executed, not proved equal to Spec.v's decoder",
           "repo hook verif_builder.go (read-only Client reference count), verif_ptrinfo.go, verif_export.go"]
MODELLED = ["Go slices (a segment is a byte list + a capacity; writes beyond len are impossible by construction)",
            "capability clients are abstract ids (the harness gives each client its id as Brand)",
            "Marshal/Unmarshal/packed/Encoder/Decoder paths are exercised by the harness (rt op: all five paths must give the same "
            "tree and Marshal must equal the frame computed from the segments); their model is C13/C14's"]
ASSUMPTIONS = ["64-bit int; segments < 2^32 bytes, segment count < 2^32; bytes are 0..255",
               "a failed pointer-writing / allocating op ends the compared run (the model keeps no state for a failed op)",
               "fuel of write_ptr/copy_struct: theorems are about Ok results, which are never produced by fuel exhaustion"]
TECHNIQUE = "Coq proof over an executable model + extracted-model/implementation differential run"
LEVEL_TEXT = ("Proof of the T1 theorems: allocation returns fresh zeroed aligned storage inside len<=cap and changes no existing byte (single-segment regrowth, new multi-segment segments); every data setter changes exactly its field and reads back; the pointer word(s) written by writePtr's placement switch (near / far+pad / double-far) are resolved by the reader model to exactly the target, changing only the pointer word and appended pads. Differential run: model == implementation on every op of random builder programs; independent oracles: setter read-back, written value tree == read tree, same tree after Marshal/Unmarshal, packed, Encoder/Decoder.")
LEVEL_NOTE = ("T2 builder_refines/read_back (whole-program refinement to an abstract store) is not proved; the tree-mode programs check it dynamically. The composite-list instance of readPtr-after-place is covered by place_resolves only up to the tag read. marshal_roundtrip is C14's theorem.")
DESIGN_REF = "DESIGN.md section 6, C04"

classify = bc.classify


def impl_violation(run, case, impl):
    return bc.impl_violation(run, case, impl) is not None


def violates(run, case, impl, model):
    # the compared observables are result classes, segment bytes / lengths / capacities, the
    # capability table and read-back values: any difference from the model (whose behaviour the
    # theorems describe), or a failed oracle (read-back, written tree, independence, round
    # trip, validity), is a property violation of the implementation at this input
    return True
