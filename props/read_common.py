"""Shared by C01 / C02 (/ C03): the read-side correspondence run (harness cmd/c01, extracted
Core model) and the L0 translator tie."""
import l0_common

generate = l0_common.generate
READ_RUN = dict(name="read", harness="c01", driver="core", model_ml="core_model")

CORE_TRUSTED = [
    "models coq/Core/Arith.v, Reader.v, ReadOps.v hand-written from address.go, rawpointer.go, segment.go, struct.go, "
    "list.go, pointer.go, message.go (canRead, Root); Core/Arith.v is additionally proved equal, on the Go types' "
    "ranges, to coq/Gen/GoArith.v which gotrans regenerates from the Go source on every run",
    "hypotheses of the theorems: every segment is at most 2^32-8 bytes long (msg_ok; Message.Segment never checks "
    "this, Unmarshal/Decoder cannot produce longer ones) with bytes 0..255; 64-bit platform",
    "arguments in the documented domain: list indices in [0, Len()), DataOffset < 2^19, Struct.Ptr index >= 0 "
    "(out-of-range list indices are documented programmer-error panics: theorems C01_index_panics say exactly when)",
] + l0_common.TRUSTED

CORE_MODELLED = ["Go slice bounds checks (modelled by Reader.slice: Panic exactly when s.data[base:end] would; read-side "
                 "segments have cap = len in the harness so that an over-read is observable)",
                 "sync/atomic CAS (Core/CanRead.v small-step model)", "Arena implementations other than the library's "
                 "SingleSegment/MultiSegment"]


def first_diff(case, impl, model):
    io, mo = impl.split(";"), model.split(";")
    f = case.split()
    ops = f[4].split(";") if len(f) > 4 else []
    for k in range(max(len(io), len(mo))):
        a = io[k] if k < len(io) else "<none>"
        b = mo[k] if k < len(mo) else "<none>"
        if a != b:
            return (ops[k].split(":")[0] if k < len(ops) else "?"), a, b
    return None, None, None


def cls(x):
    if x.startswith("P("):
        return "ptr"
    if x == "panic" or ("!" in x and ("(" in x or "[" in x)) or x == "!":
        return "panic"
    if x[:1] in "NBX":
        return x[:1]
    if "@" in x:
        return "tree"
    return x[:12]


def classify(run, case, impl, model):
    if run == l0_common.RUN_NAME:
        return l0_common.classify(run, case, impl, model)
    if case.startswith(("conc", "exhaust", "reuse")):
        return "%s/impl=%s" % (case.split()[0], impl.split()[0])
    op, a, b = first_diff(case, impl, model)
    if op is None:
        io = impl.split(";")
        f = case.split()
        ops = f[4].split(";") if len(f) > 4 else []
        for k in range(len(io)):
            if cls(io[k]) == "panic":
                return "%s/impl=panic/model=agrees" % (ops[k].split(":")[0] if k < len(ops) else "?")
        return "same"
    return "%s/impl=%s/model=%s" % (op, cls(a), cls(b))


def has_panic(impl):
    return any(cls(x) == "panic" for x in impl.split(";"))
