ID = "C09"
LEVEL = "proof"
COQ_TARGETS = ["Props/Properties_C09.vo", "Extract/ExtractTransport.vo"]
PROPS_FILES = ["Props/Properties_C09.v"]
RUNS = [dict(name="c09", harness="c09", driver="c09", model_ml="transport_model", timeout=3000)]
EXPLANATION = ""
TRUSTED = []
MODELLED = []
ASSUMPTIONS = []


def classify(run, case, impl, model):
    f = case.split()
    if f[0] == "tx":
        return "tx/impl-differs-from-model"
    return "fault/%s/%s/%s" % (f[1], f[3], impl.split(":", 1)[-1].split(",")[0].split("(")[0])


def violates(run, case, impl, model):
    return True

LEVEL_TEXT = ""
LEVEL_NOTE = ""
TECHNIQUE = "Coq proof over executable models + generated lock programs + fault-enumeration harness"
DESIGN_REF = "DESIGN.md section 6, C09; section 5.2"
