ID = "C03"
LEVEL = "proof"
COQ_TARGETS = ["Props/Properties_C03.vo", "Extract/ExtractSpec.vo", "Spec/SpecFacts.vo", "Spec/SpecGlue.vo"]
PROPS_FILES = ["Props/Properties_C03.v"]
RUNS = [dict(name="spec", harness="c03", driver="spec", model_ml="spec_model")]
EXPLANATION = ("coq/Spec/Spec.v is a decoder written from the Cap'n Proto encoding specification (only /, mod and byte "
               "indexing; nothing of the Go-faithful model is used). Theorems (coq/Spec/SpecProofs.v) relate it to the "
               "Go-faithful model of rawpointer.go/segment.go/struct.go/list.go/pointer.go (coq/Core): every pointer-field "
               "extractor is the spec's bit field for all 64-bit words; readPtr returns a pointer only if the spec resolves "
               "the same word to the same target, whose bytes lie inside the segments (any input), and returns exactly the "
               "spec's target when limits suffice; every accessor (UintN, Bit, Ptr, HasPtr, typed list At incl. both "
               "directions of the primitive/struct list upgrade, Text, Data) returns the spec's value. Independently of the "
               "model, the extracted spec decoder is run against the real accessors on messages produced by a "
               "layout-randomising encoder written for this check, on library-built, mutated, raw and cyclic messages.")
TRUSTED = ["coq/Spec/Spec.v is the author's reading of capnproto.org/encoding.html (not reachable offline): struct/list/far/"
           "capability pointer layouts, composite tag, landing pads, little-endian words, bits LSB first, list upgrade rules",
           "the Go-faithful model coq/Core/Reader.v, Arith.v (hand-written; tied to the code by the C01 correspondence and, "
           "for values, by this check's direct comparison of the real accessors with the spec decoder)",
           "the harness encoder harness/cmd/c03/enc.go (independent of the library; a wrong encoder shows up as a "
           "disagreement of BOTH decoders with the expected tree)"]
MODELLED = ["Go slices (modelled by Reader.slice)", "uint64 budget and uint depth (Z with explicit wrap where Go wraps)"]
ASSUMPTIONS = ["bytes are 0..255 (all theorems)",
               "every segment is at most 2^32-8 bytes (seg_small / segs_small): a premise of read_ptr_complete, of every accessor "
               "theorem (inside sview_ok / list_ok) and of walk_eq_spec; NOT needed by read_ptr_sound / read_ptr_inside",
               "element counts < 2^29 (list_repr): a premise of read_ptr_complete and of the list accessor theorems; for "
               "walk_eq_spec it is required only of the lists the decoder meets (vrepr). The reader rejects larger composite tag "
               "counts with an error (known finding), so on such a message walker and spec decoder differ (error vs list)",
               "the specification decoder is used in its lenient mode (spec_resolve false: a composite tag need not match the list "
               "pointer's word count; what the Go reader accepts); strict mode: Properties_C05_specvalid.v",
               "harness runs use T=2^62, D=1000 so that limits never interfere (limits are C02's subject)"]
LEVEL_TEXT = ("Proof: for all 64-bit words the field extractors equal the spec's fields; for all messages (bytes 0..255), addresses and "
              "limits a pointer returned by readPtr is the (lenient) spec's target and lies inside the segments; conversely the spec's "
              "target is returned when limits suffice, segments are <= 2^32-8 bytes and the element count is < 2^29; under the same "
              "segment-size premise all struct/list/text/data accessors return the spec's values incl. short/long sections and both "
              "list-upgrade directions (single-step theorems; an element read from a list is again a well-formed struct view). "
              "Whole trees (walk_eq_spec): for every message, caps and fuel the generic walker returns exactly the lenient "
              "spec_decode tree and consumes exactly its cost, provided depth limit > fuel, budget >= spec cost, segments <= 2^32-8 "
              "bytes and every list the decoder MEETS has < 2^29 elements (vrepr, decidable by vrepr_check; data words are not "
              "constrained). Tie: the extracted spec decoder vs the real accessors on encoder-generated, library-built, mutated, raw "
              "and cyclic messages: pointer targets, field sweeps over offsets 0..DataSize+8 x widths 1/2/4/8 and all bits, list reads "
              "of every family incl. upgrade reads, whole-tree walks, and the encoder's own value tree.")
LEVEL_NOTE = ("walk_eq_spec is proved for every message satisfying its premises (coq/Spec/WalkProofs.v); the premise about element "
              "counts ranges over the pointer words the decoder visits only, and C03_walk_eq_spec_applies instantiates the theorem on a "
              "three-segment message with far and double-far pointers, a composite list and data words that look like hostile pointers. "
              "The walker reads every list at its native kind: the upgrade reads and out-of-section defaults are covered by the "
              "single-step accessor theorems and by the runs, not by walk_eq_spec. All C03 theorems are about the lenient decoder; the bridge to the strict "
              "one is in Properties_C05_specvalid.v: on a strictly valid message (strict_valid_message = VOk) both decoders agree "
              "(C05_strict_valid_decoders_agree) and the walker returns the strict tree under walk_eq_spec's premises "
              "(C05_strict_valid_walk); absence of TErr nodes in that tree is not stated as a theorem. Known finding: composite tag counts >= 2^29 (zero-sized elements) are "
              "rejected with an error. Fixed during this work: a double-far pointer to a zero-sized struct at word 0 of a segment was "
              "read as null.")
TECHNIQUE = "Coq proof over an executable model + extracted-model/implementation differential run"
DESIGN_REF = "DESIGN.md section 6, C03"


import re as _re


def _first_diff(impl, model):
    io = impl.split(";")
    mo = model.split(";")
    for k in range(max(len(io), len(mo))):
        a = io[k] if k < len(io) else "<missing>"
        b = mo[k] if k < len(mo) else "<missing>"
        if a != b:
            return k, a, b
    return None


def _shape(x):
    """coarse class of one observation"""
    if x in ("null", "err", "panic", "none", "<missing>"):
        return x
    if x[:2] in ("S(", "L("):
        return {"S(": "struct", "L(": "list"}[x[:2]]
    return {"K": "cap", "N": "num", "B": "bool", "X": "bytes", "T": "tree", "U": "nums", "Y": "bits"}.get(x[:1], "?")


def _tree_diff(a, b):
    """first differing position of two tree strings -> (impl node class, spec node class)"""
    k = 0
    while k < len(a) and k < len(b) and a[k] == b[k]:
        k += 1
    def node(s, k):
        # back up to the start of the node containing position k
        j = k
        while j > 0 and s[j - 1] not in ",[|(;":
            j -= 1
        t = s[j:j + 8]
        c = t[:1]
        if c == "S" and t.startswith("S(-|)"):
            return "empty-struct"
        return {"0": "null", "E": "err", "!": "panic", "F": "fuel", "C": "cap", "S": "struct", "L": "ptrlist",
                "M": "complist", "V": "primlist", "B": "bitlist"}.get(c, "other")
    return node(a, k), node(b, k)


def _has_dfar0pad(case):
    """does some segment contain a two-word landing pad (far pointer with B=0 and offset 0, tag word 0),
    i.e. the pad of a double-far pointer to a zero-sized struct at word 0 of a segment"""
    f = case.split()
    if len(f) < 4 or f[3] in ("_", ""):
        return False
    for h in f[3].split(","):
        if h.startswith("Z") or h == "-":
            continue
        b = bytes.fromhex(h)
        for i in range(0, len(b) - 15, 8):
            w = int.from_bytes(b[i:i + 8], "little")
            t = int.from_bytes(b[i + 8:i + 16], "little")
            if t == 0 and w & 7 == 2 and (w >> 3) & ((1 << 29) - 1) == 0:
                return True
    return False


def classify(run, case, impl, model):
    sig = _classify(run, case, impl, model)
    if "/impl=null/" in sig and _has_dfar0pad(case):
        sig += "+dfar0pad"
    return sig


def _classify(run, case, impl, model):
    d = _first_diff(impl, model)
    if d is None:
        return "length"
    k, a, b = d
    f = case.split()
    ops = f[4].split(";") if len(f) > 4 else []
    op = ops[k].split(":")[0] if k < len(ops) else "expect"
    if a == "err" and b.startswith("L("):
        g = b[2:-1].split(",")
        if g[5] == "1" and int(g[2]) >= 1 << 29:
            return "%s/impl=err/spec=complist-count-ge-2^29" % op
    if a == "null" and _re.fullmatch(r"S\(\d+,0,0,0\)", b):
        return "%s/impl=null/spec=empty-struct-at-word-0" % op
    if a[:1] == "T" and b[:1] == "T" or a[:1] == "X" and b[:1] == "X":
        x, y = _tree_diff(a[1:], b[1:])
        if x == "err" and y == "complist":
            # the spec's node at the first difference: M<count>:<dsz>:<pc>[
            k = 0
            while k < len(a) - 1 and k < len(b) - 1 and a[1 + k] == b[1 + k]:
                k += 1
            mm = _re.match(r"M(\d+):0:0\[", b[1 + k:])
            if mm and int(mm.group(1)) >= 1 << 29:
                return "%s/tree/impl=err/spec=complist-count-ge-2^29" % op
        return "%s/tree/impl=%s/spec=%s" % (op, x, y)
    return "%s/impl=%s/spec=%s" % (op, _shape(a), _shape(b))


def violates(run, case, impl, model):
    """the implementation returned a value different from the one the specification-level
    decoder gives (an error/refusal on the implementation's side is not a wrong value)"""
    d = _first_diff(impl, model)
    if d is None:
        return False
    k, a, b = d
    if a in ("err", "panic", "<missing>"):
        # a refusal is a violation only on messages that are spec-valid by construction
        # (the encoder's; they carry the expected tree) and that the specification accepts
        return len(case.split()) > 5 and b not in ("err", "panic")
    return True
