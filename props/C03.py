ID = "C03"
LEVEL = "other"
COQ_TARGETS = ["Extract/ExtractSpec.vo"]
PROPS_FILES = []
RUNS = [dict(name="spec", harness="c03", driver="spec", model_ml="spec_model")]
EXPLANATION = "wip"
TRUSTED = []
MODELLED = []
ASSUMPTIONS = []
LEVEL_TEXT = "wip"
LEVEL_NOTE = "wip"
TECHNIQUE = "Coq proof over an executable model + extracted-model/implementation differential run"
DESIGN_REF = "DESIGN.md section 6, C03"


import re as _re


def _first_diff(impl, model):
    io = impl.split(";")
    mo = model.split(";")
    for k in range(max(len(io), len(mo))):
        a = io[k] if k < len(io) else "<missing>"
        b = mo[k] if k < len(mo) else "<missing>"
        if a != b:
            return k, a, b
    return None


def _shape(x):
    """coarse class of one observation"""
    if x in ("null", "err", "panic", "none", "<missing>"):
        return x
    if x[:2] in ("S(", "L("):
        return {"S(": "struct", "L(": "list"}[x[:2]]
    return {"K": "cap", "N": "num", "B": "bool", "X": "bytes", "T": "tree", "U": "nums", "Y": "bits"}.get(x[:1], "?")


def _tree_diff(a, b):
    """first differing position of two tree strings -> (impl node class, spec node class)"""
    k = 0
    while k < len(a) and k < len(b) and a[k] == b[k]:
        k += 1
    def node(s, k):
        # back up to the start of the node containing position k
        j = k
        while j > 0 and s[j - 1] not in ",[|(;":
            j -= 1
        t = s[j:j + 8]
        c = t[:1]
        if c == "S" and t.startswith("S(-|)"):
            return "empty-struct"
        return {"0": "null", "E": "err", "!": "panic", "F": "fuel", "C": "cap", "S": "struct", "L": "ptrlist",
                "M": "complist", "V": "primlist", "B": "bitlist"}.get(c, "other")
    return node(a, k), node(b, k)


def _has_dfar0pad(case):
    """does some segment contain a two-word landing pad (far pointer with B=0 and offset 0, tag word 0),
    i.e. the pad of a double-far pointer to a zero-sized struct at word 0 of a segment"""
    f = case.split()
    if len(f) < 4 or f[3] in ("_", ""):
        return False
    for h in f[3].split(","):
        if h.startswith("Z") or h == "-":
            continue
        b = bytes.fromhex(h)
        for i in range(0, len(b) - 15, 8):
            w = int.from_bytes(b[i:i + 8], "little")
            t = int.from_bytes(b[i + 8:i + 16], "little")
            if t == 0 and w & 7 == 2 and (w >> 3) & ((1 << 29) - 1) == 0:
                return True
    return False


def classify(run, case, impl, model):
    sig = _classify(run, case, impl, model)
    if "/impl=null/" in sig and _has_dfar0pad(case):
        sig += "+dfar0pad"
    return sig


def _classify(run, case, impl, model):
    d = _first_diff(impl, model)
    if d is None:
        return "length"
    k, a, b = d
    f = case.split()
    ops = f[4].split(";") if len(f) > 4 else []
    op = ops[k].split(":")[0] if k < len(ops) else "expect"
    if a == "err" and b.startswith("L("):
        g = b[2:-1].split(",")
        if g[5] == "1" and int(g[2]) >= 1 << 29:
            return "%s/impl=err/spec=complist-count-ge-2^29" % op
    if a == "null" and _re.fullmatch(r"S\(\d+,0,0,0\)", b):
        return "%s/impl=null/spec=empty-struct-at-word-0" % op
    if a[:1] == "T" and b[:1] == "T" or a[:1] == "X" and b[:1] == "X":
        x, y = _tree_diff(a[1:], b[1:])
        return "%s/tree/impl=%s/spec=%s" % (op, x, y)
    return "%s/impl=%s/spec=%s" % (op, _shape(a), _shape(b))


def violates(run, case, impl, model):
    """the implementation returned a value different from the one the specification-level
    decoder gives (an error/refusal on the implementation's side is not a wrong value)"""
    d = _first_diff(impl, model)
    if d is None:
        return False
    k, a, b = d
    if a in ("err", "panic", "<missing>"):
        # a refusal is a violation only on messages that are spec-valid by construction
        # (the encoder's; they carry the expected tree) and that the specification accepts
        return len(case.split()) > 5 and b not in ("err", "panic")
    return True
