from rpc_common import *  # noqa
import rpc_common as rc

ID = "C07"
LEVEL = "other"
COQ_TARGETS = ["Props/Properties_C07.vo"] + rc.COQ_COMMON
PROPS_FILES = ["Props/Properties_C07.v"]
RUNS = [rc.run("rpc", "s,v", salt=7)]
DESIGN_REF = "DESIGN.md section 6, C07"
post = rc.make_post(ID, "rpc")


def violates(run, case, impl, model):
    """C07's predicate: Release messages, export ids in descriptors, table occupancy (exports, wire refs,
    imports) after every event and the Shutdown count of every local capability at the end are the machine's."""
    if rc.crashed(impl):
        return True
    n, ev, i, m = rc.first_diff(case, impl, model)
    if i.startswith("end:") or m.startswith("end:"):
        return i != m
    im, _, _, iv = rc.parts(i)
    mm, _, _, mv = rc.parts(m)
    rel = lambda ms: sorted(x for x in ms if x[0] == "L")
    descs = lambda ms: sorted(re.sub(r"^[A-Za-z]+\\d+,(a\\d+:[^,]*,|i\\d+,)?", "", x) for x in ms if x[0] in "RC")
    return rel(im) != rel(mm) or descs(im) != descs(mm) or iv != mv


LEVEL_TEXT = ("Other (proof of the primitives + differential run): proved for the machine of rpc.Conn -- releaseExport (Release, "
              "Finish.releaseResultCaps and, after the repair of F19, Return.releaseParamCaps) keeps wireRefs e = sent e - "
              "released e with the entry present exactly while the count is positive, and refuses over-release without any "
              "change (export_count_partial); importClient.Shutdown of the current generation sends exactly one Release "
              "carrying the references received and removes the entry, other generations send nothing, addImport counts one "
              "per descriptor and a re-created client never shares a generation (import_release_partial, F20 refuted on the "
              "pre-fix machine); Close succeeds from any state and empties all tables (close_releases_all_partial). NOT proved: "
              "the history-level equation for sendCap's new entries, the client reference counters and the exactly-once "
              "Shutdown of capabilities; these are covered by the differential run only (Release messages, descriptor ids, "
              "exports / wire refs / imports after every event, Shutdown count of every instrumented capability at the end). "
              "Found and repaired: F19, F20, F22.")
LEVEL_NOTE = "See coq/Props/Properties_C07.v for the full statements and what is missing at each theorem."
