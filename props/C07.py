from rpc_common import *  # noqa
import rpc_common as rc

ID = "C07"
LEVEL = "proof"
COQ_TARGETS = ["Props/Properties_C07.vo"] + rc.COQ_COMMON
PROPS_FILES = ["Props/Properties_C07.v"]
RUNS = [rc.run("rpc", "s,v", salt=7)]
DESIGN_REF = "DESIGN.md section 6, C07"
post = rc.make_post(ID, "rpc")


def violates(run, case, impl, model):
    """C07's predicate: Release messages, export ids in descriptors, table occupancy (exports, wire refs,
    imports) after every event and the Shutdown count of every local capability at the end are the machine's."""
    if rc.crashed(impl):
        return True
    n, ev, i, m = rc.first_diff(case, impl, model)
    if i.startswith("end:") or m.startswith("end:"):
        return i != m
    im, _, _, iv = rc.parts(i)
    mm, _, _, mv = rc.parts(m)
    rel = lambda ms: sorted(x for x in ms if x[0] == "L")
    descs = lambda ms: sorted(re.sub(r"^[A-Za-z]+\\d+,(a\\d+:[^,]*,|i\\d+,)?", "", x) for x in ms if x[0] in "RC")
    return rel(im) != rel(mm) or descs(im) != descs(mm) or iv != mv


LEVEL_TEXT = ("Proof (all three T1 theorems at history level; the T2 variant under the fine-grained interleaving of "
              "importClient.Shutdown is covered by window histories of the differential run only): for ALL histories of the "
              "machine of rpc.Conn -- export_count: while the connection is up every export entry has wireRefs = sent - released "
              "> 0 and absent entries have sent = released, free ids name empty slots (C07_export_count; sent is bumped exactly "
              "where a senderHosted descriptor is written, released by every successful releaseExport: Release, "
              "Finish(releaseResultCaps), Return(releaseParamCaps)); import_release: with a ghost counter of the descriptors "
              "received per import id, the referenceCounts of all Release messages for the id plus the wireRefs of its entry equal "
              "the descriptors received, entries have wireRefs > 0, a Release is sent exactly when the entry's current client "
              "shuts down and carries the entry's wireRefs, and that is the step in which the last local reference goes "
              "(C07_import_release, C07_import_release_exact, C07_release_at_last_ref; generations never reused: F20); "
              "close_releases_all: the reference count of every local server equals, at every step, what the tables hold "
              "(bootstrap, exports, answers' arguments and results, handles, embargoes; every embargo counts the handles naming "
              "it), and after Close / Abort the tables are empty and the count equals the handles still resolved to the server, 0 "
              "when none is left (C07_close_releases_all, through every handler, shutdown and the handlers of a shut-down "
              "connection). Tied to rpc/*.go by the differential run (Release tokens, descriptor lists, table occupancy, "
              "Shutdown count 1 of every instrumented server at the end of every history) incl. window histories (re-import "
              "while a Release is being written). Found and repaired: F19, F20, F22.")
LEVEL_NOTE = ("import_release is a per-import-id balance (a re-import that finds the entry of a client whose Shutdown is postponed takes "
              "the entry over with its wireRefs, as import.go does); the statements are for cfg_fixed and histories within the "
              "id bound and the environment assumption env_ok. C07_generation_fresh has the premise 'every entry\'s generation is at most the "
              "counter' (true initially, preserved by addImport; not threaded through histories as an invariant). See coq/Props/Properties_C07.v.")
