from rpc_common import *  # noqa
import rpc_common as rc

ID = "C07"
LEVEL = "other"
COQ_TARGETS = ["Props/Properties_C07.vo"] + rc.COQ_COMMON
PROPS_FILES = ["Props/Properties_C07.v"]
RUNS = [rc.run("rpc", "s,v", salt=7)]
DESIGN_REF = "DESIGN.md section 6, C07"
post = rc.make_post(ID, "rpc")


def violates(run, case, impl, model):
    """C07's predicate: Release messages, export ids in descriptors, table occupancy (exports, wire refs,
    imports) after every event and the Shutdown count of every local capability at the end are the machine's."""
    if rc.crashed(impl):
        return True
    n, ev, i, m = rc.first_diff(case, impl, model)
    if i.startswith("end:") or m.startswith("end:"):
        return i != m
    im, _, _, iv = rc.parts(i)
    mm, _, _, mv = rc.parts(m)
    rel = lambda ms: sorted(x for x in ms if x[0] == "L")
    descs = lambda ms: sorted(re.sub(r"^[A-Za-z]+\\d+,(a\\d+:[^,]*,|i\\d+,)?", "", x) for x in ms if x[0] in "RC")
    return rel(im) != rel(mm) or descs(im) != descs(mm) or iv != mv


LEVEL_TEXT = ("Other (history-level proof of export_count + proofs of the import / close primitives + differential run): "
              "proved for ALL histories of the machine of rpc.Conn -- while the connection is up, for every export id: entry "
              "present -> wireRefs = sent - released > 0, entry absent -> sent = released, and free ids name empty slots "
              "(C07_export_count; sent is bumped exactly where a senderHosted descriptor is written, released by the count of "
              "every successful releaseExport: Release, Finish.releaseResultCaps, Return.releaseParamCaps after F19; "
              "over-release is refused without change). importClient.Shutdown of the current generation sends exactly one "
              "Release carrying the references received and removes the entry, other generations send nothing, addImport counts "
              "one per descriptor, a re-created client never shares a generation (F20 refuted on the pre-fix machine); Close "
              "succeeds from any state and empties all tables. NOT proved at history level: import_release (one Release per "
              "generation when the last local reference goes) and close_releases_all with the client reference counters; these "
              "are covered by the differential run (Release messages, descriptor ids, exports / wire refs / imports after every "
              "event, Shutdown count of every instrumented capability at the end). Found and repaired: F19, F20, F22.")
LEVEL_NOTE = "See coq/Props/Properties_C07.v for the full statements and what is missing at each theorem."
