#!/bin/sh
# L0 translator tie, stand-alone: regenerate coq/Gen/GoArith.v from ../repo (gotrans), make
# Gen/GoArith.vo Gen/GoArithAgree.vo Core/ArithFacts.vo (+ extraction, Props/Properties_L0.vo),
# audit, Print Assumptions, and run the translation validation (real Go functions vs the
# extracted generated definitions). Prints "OK l0check ..." (exit 0) or "FAIL l0check: ..." (exit 1).
# usage: ./l0check.sh [--tier quick|thorough] [--replay file]
cd "$(dirname "$0")" || exit 2
exec python3 props/l0_common.py "$@"
