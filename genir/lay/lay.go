// Package lay reads a CodeGeneratorRequest and lists, for every struct / group node of the
// requested file, what the SCHEMA says about each field (kind, offset, default, discriminant):
// the field descriptors of coq/Layout/Layout.v.  Go type and method names are taken from the
// emitted file (X_TypeID constants, return type of group getters), not recomputed.
package lay

import (
	"fmt"
	"math"
	"strconv"
	"strings"

	capnp "capnproto.org/go/capnp/v3"
	"capnproto.org/go/capnp/v3/std/capnp/schema"
)

const nameAnnotation = 0xc2b96012172f8df1 // $Go.name

type FieldRec struct {
	Req     string `json:"req"`
	Pkg     string `json:"pkg"`
	Type    string `json:"type"`
	Name    string `json:"name"`
	Kind    string `json:"kind"`
	Off     uint32 `json:"off"`
	Def     string `json:"def"`    // default as the Z of field_desc (static check)
	DefDyn  string `json:"defdyn"` // default as value id / token (dynamic check)
	Disc    uint16 `json:"disc"`
	DOff    uint32 `json:"doff"`
	DWC     uint16 `json:"dwc"` // of the allocated (base) struct
	PC      uint16 `json:"pc"`
	ListElt string `json:"listelt,omitempty"`
	TypeID  uint64 `json:"typeid,omitempty"`  // struct / enum / interface type, or such an element type of a list
	EltDWC  uint16 `json:"eltdwc,omitempty"`  // List(struct): the element node's sizes
	EltPC   uint16 `json:"eltpc,omitempty"`
	EltList bool   `json:"eltlist,omitempty"` // List(struct)
	// struct / list / anyPointer default: the bytes the generator embeds (message holding the default
	// as its root, as staticData.copyData marshals it); nil for a null default
	DefBytes []byte `json:"-"`
}

// DefaultBytes marshals a default pointer the way capnpc-go's staticData.copyData does.
func DefaultBytes(p capnp.Ptr) ([]byte, error) {
	if !p.IsValid() {
		return nil, nil
	}
	m, _, err := capnp.NewMessage(capnp.SingleSegment(nil))
	if err != nil {
		return nil, err
	}
	if err := m.SetRoot(p); err != nil {
		return nil, err
	}
	return m.Marshal()
}

// IfaceRec: the parameter / result struct types of an interface's methods.
type IfaceRec struct {
	Type    string
	Methods []MethodRec
}

type MethodRec struct {
	Name     string // Go method name
	ParamID  uint64
	ResultID uint64
}

type NodeRec struct {
	Req       string   `json:"req"`
	Pkg       string   `json:"pkg"`
	Type      string   `json:"type"`
	ID        uint64   `json:"id"`
	DWC       uint16   `json:"dwc"`
	PC        uint16   `json:"pc"`
	IsGroup   bool     `json:"isgroup"`
	DiscCount uint16   `json:"disccount"`
	DiscOff   uint32   `json:"discoff"`
	Members   []uint16 `json:"members"`
	Names     []string `json:"names"` // member field names (schema names after $Go.name), code order
	BaseDWC   uint16   `json:"basedwc"`
	BasePC    uint16   `json:"basepc"`
}

// GoNames is what the translator found in the emitted file.
type GoNames interface {
	TypeOfID(id uint64) (string, bool)
	GroupType(recv, method string) (string, bool)
}

func ReadRequest(data []byte) (schema.CodeGeneratorRequest, error) {
	msg, err := capnp.Unmarshal(data)
	if err != nil {
		return schema.CodeGeneratorRequest{}, err
	}
	msg.TraverseLimit = 1 << 40
	return schema.ReadRootCodeGeneratorRequest(msg)
}

func rename(anns schema.Annotation_List, name string) string {
	for i := 0; i < anns.Len(); i++ {
		a := anns.At(i)
		if a.Id() == nameAnnotation {
			v, _ := a.Value()
			if t, _ := v.Text(); t != "" {
				return t
			}
		}
	}
	return name
}

func KindOf(t schema.Type) string {
	switch t.Which() {
	case schema.Type_Which_void:
		return "void"
	case schema.Type_Which_bool:
		return "bool"
	case schema.Type_Which_int8:
		return "i8"
	case schema.Type_Which_int16:
		return "i16"
	case schema.Type_Which_int32:
		return "i32"
	case schema.Type_Which_int64:
		return "i64"
	case schema.Type_Which_uint8:
		return "u8"
	case schema.Type_Which_uint16:
		return "u16"
	case schema.Type_Which_uint32:
		return "u32"
	case schema.Type_Which_uint64:
		return "u64"
	case schema.Type_Which_float32:
		return "f32"
	case schema.Type_Which_float64:
		return "f64"
	case schema.Type_Which_text:
		return "text"
	case schema.Type_Which_data:
		return "data"
	case schema.Type_Which_list:
		return "list"
	case schema.Type_Which_enum:
		return "enum"
	case schema.Type_Which_structType:
		return "struct"
	case schema.Type_Which_interface:
		return "iface"
	case schema.Type_Which_anyPointer:
		return "any"
	}
	return "?"
}

// ContentID maps text/data contents to the content ids of the model: "" -> 0, "t<k>" -> k.
func ContentID(s string) int64 {
	if s == "" {
		return 0
	}
	if strings.HasPrefix(s, "t") {
		if k, err := strconv.ParseInt(s[1:], 10, 62); err == nil && k > 0 && "t"+strconv.FormatInt(k, 10) == s {
			return k
		}
	}
	return 999983
}

// PtrToken is the token the dynamic driver reads for a pointer: 0 null, struct -> its first
// data word, list -> its length, interface -> 1.
func PtrToken(p capnp.Ptr) int64 {
	if !p.IsValid() {
		return 0
	}
	if s := p.Struct(); s.IsValid() {
		return int64(s.Uint64(0) & 0x3fffffff)
	}
	if l := p.List(); l.IsValid() {
		return int64(l.Len())
	}
	return 1
}

// defaults returns (static Z, dynamic id).
func defaults(kind string, t schema.Type, v schema.Value) (string, string, error) {
	if !v.IsValid() {
		// a null defaultValue: the generator treats it as the zero default of every kind
		return "0", "0", nil
	}
	if int(v.Which()) != int(t.Which()) {
		return "", "", fmt.Errorf("default value of another type")
	}
	z := func(x int64) (string, string, error) { s := strconv.FormatInt(x, 10); return s, s, nil }
	u := func(x uint64) (string, string, error) { s := strconv.FormatUint(x, 10); return s, s, nil }
	switch kind {
	case "void", "iface":
		return "0", "0", nil
	case "bool":
		if v.Bool() {
			return "1", "1", nil
		}
		return "0", "0", nil
	case "i8":
		return z(int64(v.Int8()))
	case "i16":
		return z(int64(v.Int16()))
	case "i32":
		return z(int64(v.Int32()))
	case "i64":
		return z(v.Int64())
	case "u8":
		return u(uint64(v.Uint8()))
	case "u16":
		return u(uint64(v.Uint16()))
	case "u32":
		return u(uint64(v.Uint32()))
	case "u64":
		return u(v.Uint64())
	case "f32":
		return u(uint64(math.Float32bits(v.Float32())))
	case "f64":
		return u(math.Float64bits(v.Float64()))
	case "enum":
		return u(uint64(v.Enum()))
	case "text":
		s, err := v.Text()
		if err != nil {
			return "", "", err
		}
		if s == "" {
			return "0", "0", nil
		}
		return "1", strconv.FormatInt(ContentID(s), 10), nil
	case "data":
		b, err := v.Data()
		if err != nil {
			return "", "", err
		}
		if len(b) == 0 {
			return "0", "0", nil
		}
		return "1", strconv.FormatInt(ContentID(string(b)), 10), nil
	case "struct", "list", "any":
		var p capnp.Ptr
		var err error
		switch kind {
		case "struct":
			p, err = v.StructValue()
		case "list":
			p, err = v.List()
		default:
			p, err = v.AnyPointer()
		}
		if err != nil {
			return "", "", err
		}
		if !p.IsValid() {
			return "0", "0", nil
		}
		return "1", strconv.FormatInt(PtrToken(p), 10), nil
	}
	return "", "", fmt.Errorf("unknown kind %q", kind)
}

type Table struct {
	Nodes  []NodeRec
	Fields []FieldRec
	Ifaces []IfaceRec
}

func typeRefID(t schema.Type) uint64 {
	switch t.Which() {
	case schema.Type_Which_structType:
		return t.StructType().TypeId()
	case schema.Type_Which_enum:
		return t.Enum().TypeId()
	case schema.Type_Which_interface:
		return t.Interface().TypeId()
	}
	return 0
}

// Build lists nodes and fields of the struct nodes of file fileID (those the emitted file
// declares a X_TypeID for).
func Build(reqName, pkg string, req schema.CodeGeneratorRequest, fileID uint64, names GoNames) (*Table, error) {
	nodes, err := req.Nodes()
	if err != nil {
		return nil, err
	}
	byID := map[uint64]schema.Node{}
	for i := 0; i < nodes.Len(); i++ {
		byID[nodes.At(i).Id()] = nodes.At(i)
	}
	// file membership: follow scopeId up to a file node
	inFile := func(n schema.Node) bool {
		for k := 0; k < 64; k++ {
			if n.Id() == fileID {
				return true
			}
			p, ok := byID[n.ScopeId()]
			if !ok || n.ScopeId() == 0 {
				return false
			}
			n = p
		}
		return false
	}
	t := &Table{}
	var walk func(n schema.Node, goName string, base schema.Node) error
	walk = func(n schema.Node, goName string, base schema.Node) error {
		sn := n.StructNode()
		fields, err := sn.Fields()
		if err != nil {
			return err
		}
		nr := NodeRec{Req: reqName, Pkg: pkg, Type: goName, ID: n.Id(), DWC: sn.DataWordCount(), PC: sn.PointerCount(),
			IsGroup: sn.IsGroup(), DiscCount: sn.DiscriminantCount(), DiscOff: sn.DiscriminantOffset(),
			BaseDWC: base.StructNode().DataWordCount(), BasePC: base.StructNode().PointerCount()}
		ordered := make([]schema.Field, fields.Len())
		for i := 0; i < fields.Len(); i++ {
			f := fields.At(i)
			if int(f.CodeOrder()) >= len(ordered) || ordered[f.CodeOrder()].IsValid() {
				return fmt.Errorf("%s: bad codeOrder", goName)
			}
			ordered[f.CodeOrder()] = f
		}
		type grp struct {
			n    schema.Node
			name string
		}
		var groups []grp
		for _, f := range ordered {
			fname, _ := f.Name()
			anns, _ := f.Annotations()
			fname = rename(anns, fname)
			title := strings.Title(fname)
			if f.DiscriminantValue() != schema.Field_noDiscriminant {
				nr.Members = append(nr.Members, f.DiscriminantValue())
				nr.Names = append(nr.Names, fname)
			}
			fr := FieldRec{Req: reqName, Pkg: pkg, Type: goName, Name: title, Disc: f.DiscriminantValue(),
				DOff: sn.DiscriminantOffset(), DWC: nr.BaseDWC, PC: nr.BasePC}
			switch f.Which() {
			case schema.Field_Which_slot:
				ty, err := f.Slot().Type()
				if err != nil {
					return err
				}
				dv, err := f.Slot().DefaultValue()
				if err != nil {
					return err
				}
				fr.Kind = KindOf(ty)
				fr.Off = f.Slot().Offset()
				fr.Def, fr.DefDyn, err = defaults(fr.Kind, ty, dv)
				if err != nil {
					return fmt.Errorf("%s.%s: %v", goName, fname, err)
				}
				fr.TypeID = typeRefID(ty)
				if dv.IsValid() {
					var dp capnp.Ptr
					switch fr.Kind {
					case "struct":
						dp, _ = dv.StructValue()
					case "list":
						dp, _ = dv.List()
					case "any":
						dp, _ = dv.AnyPointer()
					}
					if fr.DefBytes, err = DefaultBytes(dp); err != nil {
						return err
					}
				}
				if fr.Kind == "list" {
					et, _ := ty.List().ElementType()
					fr.ListElt = KindOf(et)
					if fr.ListElt == "struct" || fr.ListElt == "enum" {
						fr.TypeID = typeRefID(et)
					}
					if en, ok := byID[fr.TypeID]; ok && fr.ListElt == "struct" && en.Which() == schema.Node_Which_structNode {
						fr.EltList = true
						fr.EltDWC = en.StructNode().DataWordCount()
						fr.EltPC = en.StructNode().PointerCount()
					}
				}
			case schema.Field_Which_group:
				fr.Kind = "group"
				fr.Def, fr.DefDyn = "0", "0"
				gn, ok := byID[f.Group().TypeId()]
				if !ok {
					return fmt.Errorf("%s.%s: group node missing", goName, fname)
				}
				gname, ok := names.GroupType(goName, title)
				if !ok {
					return fmt.Errorf("%s.%s: no group getter in the emitted file", goName, title)
				}
				groups = append(groups, grp{gn, gname})
			}
			t.Fields = append(t.Fields, fr)
		}
		t.Nodes = append(t.Nodes, nr)
		for _, g := range groups {
			if err := walk(g.n, g.name, base); err != nil {
				return err
			}
		}
		return nil
	}
	for i := 0; i < nodes.Len(); i++ {
		n := nodes.At(i)
		if n.Which() == schema.Node_Which_interface && inFile(n) {
			if goName, ok := names.TypeOfID(n.Id()); ok {
				ir := IfaceRec{Type: goName}
				ms, _ := n.Interface().Methods()
				for k := 0; k < ms.Len(); k++ {
					m := ms.At(k)
					mname, _ := m.Name()
					manns, _ := m.Annotations()
					ir.Methods = append(ir.Methods, MethodRec{Name: strings.Title(rename(manns, mname)),
						ParamID: m.ParamStructType(), ResultID: m.ResultStructType()})
				}
				t.Ifaces = append(t.Ifaces, ir)
			}
		}
		if n.Which() != schema.Node_Which_structNode || n.StructNode().IsGroup() {
			continue
		}
		goName, ok := names.TypeOfID(n.Id())
		if !ok {
			if inFile(n) {
				return nil, fmt.Errorf("struct node %#x has no X_TypeID constant in the emitted file", n.Id())
			}
			continue // node of another file (or a method parameter struct of another file)
		}
		if err := walk(n, goName, n); err != nil {
			return nil, err
		}
	}
	return t, nil
}
