module genir

go 1.23

require capnproto.org/go/capnp/v3 v3.0.0

replace capnproto.org/go/capnp/v3 => ../../repo
