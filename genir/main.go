// genir: the translator of C15.
//
//	genir run -repo R -capnpc BIN -work DIR -coq FILE -seed N -count K [-tier quick|thorough]
//
// builds the corpus of CodeGeneratorRequests (capnpc-go/testdata/*.capnp.out, the schemas embedded
// in std/, random schemas built with std/capnp/schema), runs the generator BIN on each request
// (8 times, different GOMAXPROCS, outputs compared byte for byte), parses the emitted accessors
// into the IR of coq/Layout/Layout.v, writes FILE (Gen/GenAccessors.v), compiles every emitted
// package and the dynamic driver, and writes DIR/report.json + DIR/fields.json.
package main

import (
	"bytes"
	"encoding/json"
	"flag"
	"fmt"
	"os"
	"os/exec"
	"path/filepath"
	"sort"
	"strings"
	"sync"
	"time"

	"capnproto.org/go/capnp/v3/std/capnp/schema"
	"genir/lay"
)

type entryReport struct {
	Name        string   `json:"name"`
	Source      string   `json:"source"` // testdata | std | random | probe
	GenOK       bool     `json:"gen_ok"`
	GenErr      string   `json:"gen_err,omitempty"`
	Determinism string   `json:"determinism"` // identical | DIFFERS | -
	Files       []string `json:"files"`
	Translated  bool     `json:"translated"`
	TransErr    string   `json:"trans_err,omitempty"`
	Compiles    string   `json:"compiles"` // yes | NO | skipped-import | -
	CompileErr  string   `json:"compile_err,omitempty"`
	Fields      int      `json:"fields"`
	Nodes       int      `json:"nodes"`
	Expect      string   `json:"expect,omitempty"` // for probe entries: what is being probed
}

type entry struct {
	name   string
	source string
	req    []byte
	expect string
	rep    *entryReport
	table  *lay.Table // the MAIN (first requested) file: what the dynamic driver links
	sfields []lay.FieldRec // all requested files (static check)
	snodes  []lay.NodeRec
	firs   []string // Coq terms, parallel to sfields
	nirs   []string // parallel to snodes
	trefs  []string // Coq terms (schema type id, [ids the emitted qualified names resolve to])
	drefs  []string // Coq terms (kind, ((slot, default bytes) of the schema, (slot, default bytes) emitted))
	tableOK bool    // the main file's table is complete (the package can be linked into the dynamic driver)
	repo   string
	pkgDir string // directory (relative to work) holding the emitted package
	pkg    string // Go package name
}

// linked: the emitted package is linked into the dynamic driver.  The std schemas are not: their
// schema ids are registered by the library's own std packages (schemas.Register panics on the
// second registration); they take part in the static check and the compile check only.
func (e *entry) linked() bool {
	return e.tableOK && e.rep.Compiles == "yes" && len(e.table.Nodes) > 0 && e.source != "std"
}

func must(err error) {
	if err != nil {
		fmt.Fprintln(os.Stderr, "genir:", err)
		os.Exit(2)
	}
}

func main() {
	if len(os.Args) < 2 || os.Args[1] != "run" {
		fmt.Fprintln(os.Stderr, "usage: genir run ...")
		os.Exit(2)
	}
	fs := flag.NewFlagSet("run", flag.ExitOnError)
	repo := fs.String("repo", "../repo", "repository")
	capnpc := fs.String("capnpc", "", "capnpc-go binary")
	work := fs.String("work", "", "work directory")
	coq := fs.String("coq", "", "GenAccessors.v to write")
	seed := fs.Uint64("seed", 1, "seed")
	count := fs.Int("count", 24, "number of random schemas")
	gobin := fs.String("go", "go", "go tool used to compile the emitted packages")
	fs.Parse(os.Args[2:])
	repoAbs, err := filepath.Abs(*repo)
	must(err)
	workAbs, err := filepath.Abs(*work)
	must(err)
	capnpcAbs, err := filepath.Abs(*capnpc)
	must(err)
	must(os.MkdirAll(workAbs, 0o755))

	var entries []*entry
	entries = append(entries, testdataEntries(repoAbs)...)
	entries = append(entries, stdEntries(repoAbs)...)
	entries = append(entries, randomEntries(*seed, *count)...)
	entries = append(entries, boundaryEntries()...)
	entries = append(entries, sharedSlotEntries()...)
	entries = append(entries, probeEntries()...)
	entries = append(entries, multiFileEntries()...)
	for _, e := range entries {
		e.repo = repoAbs
		e.rep = &entryReport{Name: e.name, Source: e.source, Determinism: "-", Compiles: "-", Expect: e.expect}
	}

	// module for the emitted packages
	genDir := filepath.Join(workAbs, "mod")
	os.RemoveAll(genDir)
	must(os.MkdirAll(genDir, 0o755))
	must(os.WriteFile(filepath.Join(genDir, "go.mod"), []byte("module c15gen\n\ngo 1.23\n\nrequire capnproto.org/go/capnp/v3 v3.0.0\n\nreplace capnproto.org/go/capnp/v3 => "+repoAbs+"\n"), 0o644))
	sum, err := os.ReadFile(filepath.Join(repoAbs, "go.sum"))
	must(err)
	must(os.WriteFile(filepath.Join(genDir, "go.sum"), sum, 0o644))

	t0 := time.Now()
	lap := func(what string) {
		fmt.Fprintf(os.Stderr, "genir: %s %.1fs\n", what, time.Since(t0).Seconds())
		t0 = time.Now()
	}
	lap("corpus")
	sem := make(chan struct{}, 8)
	var wg sync.WaitGroup
	for _, e := range entries {
		wg.Add(1)
		go func(e *entry) {
			defer wg.Done()
			sem <- struct{}{}
			defer func() { <-sem }()
			generate(e, capnpcAbs, workAbs, genDir)
			if e.rep.GenOK {
				translate(e, genDir)
			}
		}(e)
	}
	wg.Wait()

	lap("generate+translate")
	// compile the emitted packages (one go invocation; errors are attributed by package)
	{
		args := []string{"build"}
		for _, e := range entries {
			if !e.rep.GenOK {
				continue
			}
			if imp := unresolvedImport(filepath.Join(genDir, e.pkgDir), repoAbs, genDir); imp != "" {
				e.rep.Compiles = "skipped-import"
				e.rep.CompileErr = "imports " + imp + " which is outside the corpus and the repository"
				continue
			}
			args = append(args, "./"+e.pkgDir+"/...")
		}
		cmd := exec.Command(*gobin, args...)
		cmd.Dir = genDir
		out, _ := cmd.CombinedOutput()
		errs := map[string][]string{}
		cur := ""
		for _, line := range strings.Split(string(out), "\n") {
			if strings.HasPrefix(line, "# c15gen/") {
				cur = strings.Fields(strings.TrimPrefix(line, "# c15gen/"))[0]
				continue
			}
			if strings.TrimSpace(line) == "" {
				continue
			}
			owner := cur
			if i := strings.Index(line, "/"); i > 0 && !strings.HasPrefix(line, "\t") && !strings.HasPrefix(line, " ") {
				if _, err := os.Stat(filepath.Join(genDir, line[:i])); err == nil {
					owner = line[:i]
				}
			}
			errs[owner] = append(errs[owner], line)
		}
		for _, e := range entries {
			if !e.rep.GenOK || e.rep.Compiles == "skipped-import" {
				continue
			}
			msgs := errs[e.pkgDir]
			if len(msgs) == 0 {
				e.rep.Compiles = "yes"
				continue
			}
			txt := strings.Join(msgs, "\n")
			if strings.Contains(txt, "no required module provides") || strings.Contains(txt, "cannot find package") ||
				strings.Contains(txt, "is not in std") || strings.Contains(txt, "does not contain package") ||
				strings.Contains(txt, "finding module for package") {
				e.rep.Compiles = "skipped-import"
				e.rep.CompileErr = trunc(txt, 600)
			} else {
				e.rep.Compiles = "NO"
				e.rep.CompileErr = trunc(txt, 1500)
			}
		}
		if msgs := errs[""]; len(msgs) > 0 {
			must(fmt.Errorf("go build of the emitted packages: %s", trunc(strings.Join(msgs, "\n"), 2000)))
		}
	}

	lap("compile")
	must(writeCoq(*coq, entries))
	must(writeReports(workAbs, entries))
	must(writeDriver(genDir, entries, *gobin))
	lap("driver")
}

// unresolvedImport returns an import path of the package in dir that is neither standard library,
// nor a package of the repository, nor an emitted package.
func unresolvedImport(dir, repo, genDir string) string {
	files, _ := filepath.Glob(filepath.Join(dir, "*.go"))
	for _, f := range files {
		g, err := parseGo(f)
		if err != nil {
			continue
		}
		for _, im := range g.file.Imports {
			p := strings.Trim(im.Path.Value, "\"")
			switch {
			case strings.HasPrefix(p, "capnproto.org/go/capnp/v3"):
				if _, err := os.Stat(filepath.Join(repo, strings.TrimPrefix(p, "capnproto.org/go/capnp/v3"))); err != nil {
					return p
				}
			case strings.HasPrefix(p, "c15gen/"):
				if _, err := os.Stat(filepath.Join(genDir, strings.TrimPrefix(p, "c15gen/"))); err != nil {
					return p
				}
			case strings.Contains(strings.Split(p, "/")[0], "."):
				return p
			}
		}
	}
	return ""
}

func trunc(s string, n int) string {
	if len(s) > n {
		return s[:n] + "..."
	}
	return s
}

// generate runs the generator 8 times on the request and keeps the (first) output under mod/<name>/.
func generate(e *entry, capnpc, work, genDir string) {
	var first map[string][]byte
	os.MkdirAll(filepath.Join(work, "gen", e.name), 0o755)
	os.WriteFile(filepath.Join(work, "gen", e.name, "request.bin"), e.req, 0o644)
	for run := 0; run < 8; run++ {
		dir := filepath.Join(work, "gen", e.name, fmt.Sprint(run))
		os.RemoveAll(dir)
		if err := os.MkdirAll(dir, 0o755); err != nil {
			e.rep.GenErr = err.Error()
			return
		}
		cmd := exec.Command(capnpc)
		cmd.Dir = dir
		cmd.Stdin = bytes.NewReader(e.req)
		cmd.Env = append(os.Environ(), fmt.Sprintf("GOMAXPROCS=%d", []int{1, 2, 3, 4, 5, 6, 7, 8}[run]))
		out, err := cmd.CombinedOutput()
		if err != nil {
			e.rep.GenErr = trunc(strings.TrimSpace(string(out))+" ("+err.Error()+")", 800)
			return
		}
		files := map[string][]byte{}
		filepath.Walk(dir, func(p string, info os.FileInfo, err error) error {
			if err == nil && !info.IsDir() {
				b, _ := os.ReadFile(p)
				rel, _ := filepath.Rel(dir, p)
				files[rel] = b
			}
			return nil
		})
		if run == 0 {
			first = files
			continue
		}
		same := len(files) == len(first)
		for k, v := range files {
			if !bytes.Equal(first[k], v) {
				same = false
			}
		}
		if !same {
			e.rep.Determinism = "DIFFERS"
		}
	}
	if e.rep.Determinism == "-" {
		e.rep.Determinism = "identical"
	}
	e.rep.GenOK = true
	var names []string
	for k := range first {
		names = append(names, k)
	}
	sort.Strings(names)
	e.rep.Files = names
	e.pkgDir = e.name
	for _, k := range names {
		p := filepath.Join(genDir, e.name, k)
		os.MkdirAll(filepath.Dir(p), 0o755)
		os.WriteFile(p, first[k], 0o644)
	}
}

func translate(e *entry, genDir string) {
	req, err := lay.ReadRequest(e.req)
	if err != nil {
		e.rep.TransErr = err.Error()
		return
	}
	rfs, _ := req.RequestedFiles()
	e.table = &lay.Table{}
	// parse every emitted file; index them by the Go import path their file node declares
	nodes, _ := req.Nodes()
	impOf := map[uint64]string{}
	for i := 0; i < nodes.Len(); i++ {
		n := nodes.At(i)
		if n.Which() != schema.Node_Which_file {
			continue
		}
		anns, _ := n.Annotations()
		for k := 0; k < anns.Len(); k++ {
			if anns.At(k).Id() == annImport {
				v, _ := anns.At(k).Value()
				impOf[n.Id()], _ = v.Text()
			}
		}
	}
	byImport := map[string]*goFile{}
	var files []*goFile
	for i := 0; i < rfs.Len(); i++ {
		rf := rfs.At(i)
		fname, _ := rf.Filename()
		g, err := parseGo(filepath.Join(genDir, e.name, fname+".go"))
		if err != nil {
			e.rep.TransErr = "emitted file does not parse: " + err.Error()
			return
		}
		files = append(files, g)
		if imp := impOf[rf.Id()]; imp != "" {
			byImport[imp] = g
		}
	}
	res := &resolver{byImport: byImport, repo: e.repo, cache: map[string]*goFile{}}
	for i := 0; i < rfs.Len(); i++ {
		rf := rfs.At(i)
		g := files[i]
		if i == 0 {
			e.pkg = g.pkg
		}
		t, err := lay.Build(e.name, e.name, req, rf.Id(), g)
		if err != nil {
			e.rep.TransErr = err.Error()
			return
		}
		// an accessor genir does not understand is an error of the entry (fail closed: the entry is
		// left out of the static lists and reported), but the walk goes on so that the table stays
		// complete and the package can still be run by the dynamic driver
		fail := func(err error) {
			if e.rep.TransErr == "" {
				e.rep.TransErr = err.Error()
			}
		}
		for _, f := range t.Fields {
			ir, err := g.fieldIR(f)
			if err != nil {
				fail(err)
			}
			e.firs = append(e.firs, ir)
			if f.TypeID != 0 {
				tr, err := g.fieldTypeRefs(f, res)
				if err != nil {
					fail(err)
				}
				if tr != "" {
					e.trefs = append(e.trefs, fmt.Sprintf("  (* %s %s.%s *) %s", e.name, f.Type, f.Name, tr))
				}
			}
			drs, err := g.defRefs(f)
			if err != nil {
				fail(err)
			}
			for _, dr := range drs {
				e.drefs = append(e.drefs, fmt.Sprintf("  (* %s %s.%s *) %s", e.name, f.Type, f.Name, dr))
			}
		}
		for _, n := range t.Nodes {
			ir, err := g.nodeIR(n)
			if err != nil {
				fail(err)
			}
			e.nirs = append(e.nirs, ir)
		}
		for _, ifc := range t.Ifaces {
			trs, err := g.ifaceTypeRefs(ifc, res)
			if err != nil {
				fail(err)
			}
			for _, tr := range trs {
				e.trefs = append(e.trefs, fmt.Sprintf("  (* %s interface %s *) %s", e.name, ifc.Type, tr))
			}
		}
		e.sfields = append(e.sfields, t.Fields...)
		e.snodes = append(e.snodes, t.Nodes...)
		if i == 0 {
			e.table.Fields = append(e.table.Fields, t.Fields...)
			e.table.Nodes = append(e.table.Nodes, t.Nodes...)
		}
	}
	e.tableOK = true
	e.rep.Translated = e.rep.TransErr == ""
	e.rep.Fields = len(e.sfields)
	e.rep.Nodes = len(e.snodes)
}

var coqKind = map[string]string{"void": "KVoid", "bool": "KBool", "i8": "(KInt W8)", "i16": "(KInt W16)", "i32": "(KInt W32)",
	"i64": "(KInt W64)", "u8": "(KUint W8)", "u16": "(KUint W16)", "u32": "(KUint W32)", "u64": "(KUint W64)", "f32": "KFloat32",
	"f64": "KFloat64", "enum": "KEnum", "text": "KText", "data": "KData", "list": "KList", "struct": "KStruct",
	"iface": "KInterface", "any": "KAnyPtr", "group": "KGroup"}

func zlit(s string) string {
	if strings.HasPrefix(s, "-") {
		return "(" + s + ")"
	}
	return s
}

func writeCoq(path string, entries []*entry) error {
	var b bytes.Buffer
	b.WriteString("(* GENERATED by genir from the Go code emitted by the current capnpc-go; do not edit.\n" +
		"   fields: (what the schema says about the field, what the emitted accessors do)\n" +
		"   nodes:  (what the schema says about the struct node, what the emitted constructors do) *)\n" +
		"From CV Require Import Layout.Layout.\nOpen Scope Z_scope.\n\n")
	seenF := map[string]bool{}
	seenN := map[string]bool{}
	var fl, nl []string
	nf, nn := 0, 0
	for _, e := range entries {
		if !e.rep.Translated {
			continue
		}
		for i, f := range e.sfields {
			nf++
			t := fmt.Sprintf("(mkF %s %d %s %d %d,\n   %s)", coqKind[f.Kind], f.Off, zlit(f.Def), f.Disc, f.DOff, e.firs[i])
			if !seenF[t] {
				seenF[t] = true
				fl = append(fl, fmt.Sprintf("  (* %s %s.%s *)\n  %s", e.name, f.Type, f.Name, t))
			}
		}
		for i, n := range e.snodes {
			nn++
			var ms []string
			for _, m := range n.Members {
				ms = append(ms, fmt.Sprint(m))
			}
			t := fmt.Sprintf("(mkN %d %d %d %v %d %d [%s],\n   %s)", n.ID, n.DWC, n.PC, n.IsGroup, n.DiscCount, n.DiscOff,
				strings.Join(ms, "; "), e.nirs[i])
			if !seenN[t] {
				seenN[t] = true
				nl = append(nl, fmt.Sprintf("  (* %s %s *)\n  %s", e.name, n.Type, t))
			}
		}
	}
	fmt.Fprintf(&b, "(* %d fields (%d distinct), %d nodes (%d distinct) *)\n", nf, len(fl), nn, len(nl))
	b.WriteString("Definition fields : list (field_desc * accessor_ir) := [\n" + strings.Join(fl, ";\n") + "\n].\n\n")
	b.WriteString("Definition nodes : list (node_desc * node_ir) := [\n" + strings.Join(nl, ";\n") + "\n].\n\n")
	var tl []string
	seenT := map[string]bool{}
	for _, e := range entries {
		if !e.rep.Translated {
			continue
		}
		for _, t := range e.trefs {
			if !seenT[t] {
				seenT[t] = true
				tl = append(tl, t)
			}
		}
	}
	b.WriteString("(* (type id the schema gives a field / method, node ids of the X_TypeID constants that the qualified Go\n" +
		"   names used by the emitted getter, setter, NewX, constructors / method signatures resolve to through the\n" +
		"   emitted import block) *)\n")
	b.WriteString("Definition typerefs : list (Z * list Z) := [\n" + strings.Join(tl, ";\n") + "\n].\n\n")
	var dl []string
	seenD := map[string]bool{}
	for _, e := range entries {
		if !e.rep.Translated {
			continue
		}
		for _, t := range e.drefs {
			if !seenD[t] {
				seenD[t] = true
				dl = append(dl, t)
			}
		}
	}
	b.WriteString("(* pointer defaults: (0 = pipelined accessor X_Future.F(), 1 = getter; ((pointer slot, default message bytes) the\n" +
		"   schema gives the field, (slot, bytes of the static data slice) the emitted accessor names)) *)\n")
	b.WriteString("Definition defrefs : list (Z * ((Z * list Z) * (Z * list Z))) := [\n" + strings.Join(dl, ";\n") + "\n].\n")
	old, _ := os.ReadFile(path)
	if bytes.Equal(old, b.Bytes()) {
		return nil
	}
	os.MkdirAll(filepath.Dir(path), 0o755)
	return os.WriteFile(path, b.Bytes(), 0o644)
}

func writeReports(work string, entries []*entry) error {
	var reps []*entryReport
	var fields []lay.FieldRec
	var nodes []lay.NodeRec
	for _, e := range entries {
		reps = append(reps, e.rep)
		if e.linked() {
			fields = append(fields, e.table.Fields...)
			nodes = append(nodes, e.table.Nodes...)
		}
	}
	b, _ := json.MarshalIndent(reps, "", " ")
	if err := os.WriteFile(filepath.Join(work, "report.json"), b, 0o644); err != nil {
		return err
	}
	b, _ = json.Marshal(map[string]interface{}{"fields": fields, "nodes": nodes})
	return os.WriteFile(filepath.Join(work, "fields.json"), b, 0o644)
}

// writeDriver writes mod/rundrv (the reflection driver + a registry of the emitted types of
// every package that compiled) and builds it.
func writeDriver(genDir string, entries []*entry, gobin string) error {
	d := filepath.Join(genDir, "rundrv")
	if err := os.MkdirAll(d, 0o755); err != nil {
		return err
	}
	var imp, reg bytes.Buffer
	k := 0
	for _, e := range entries {
		if !e.linked() {
			continue
		}
		k++
		fmt.Fprintf(&imp, "\tp%d \"c15gen/%s\"\n", k, e.pkgDir)
		for _, n := range e.table.Nodes {
			fmt.Fprintf(&reg, "\treg(%q, %q, reflect.TypeOf(p%d.%s{}))\n", e.name, n.Type, k, n.Type)
			fmt.Fprintf(&reg, "\treg(%q, %q, reflect.TypeOf(p%d.%s_Future{}))\n", e.name, n.Type+"_Future", k, n.Type)
			if !n.IsGroup {
				fmt.Fprintf(&reg, "\tregNew(%q, %q, func(s *capnp.Segment) (interface{}, error) { return p%d.New%s(s) })\n", e.name, n.Type, k, n.Type)
			}
		}
	}
	src := "package main\n\nimport (\n\t\"reflect\"\n\n\tcapnp \"capnproto.org/go/capnp/v3\"\n" + imp.String() + ")\n\nvar _ = capnp.Ptr{}\nvar _ = reflect.TypeOf\n\nfunc init() {\n" + reg.String() + "}\n"
	if err := os.WriteFile(filepath.Join(d, "reg_gen.go"), []byte(src), 0o644); err != nil {
		return err
	}
	if err := os.WriteFile(filepath.Join(d, "main.go"), []byte(driverSource), 0o644); err != nil {
		return err
	}
	cmd := exec.Command(gobin, "build", "-o", filepath.Join(genDir, "..", "rundrv"), "./rundrv")
	cmd.Dir = genDir
	out, err := cmd.CombinedOutput()
	if err != nil {
		return fmt.Errorf("building the dynamic driver: %v\n%s", err, trunc(string(out), 3000))
	}
	return nil
}
