package main

import _ "embed"

//go:embed rundrv_main.go.txt
var driverSource string
