package main

// Translation of emitted accessor bodies into the accessor IR of coq/Layout/Layout.v.
// Every statement of an accessor must match one of the shapes below (the shapes of
// capnpc-go/templates/struct*Field, _settag, _checktag, _hasfield); anything else is an error
// naming the function (fail closed).

import (
	"bytes"
	"fmt"
	"go/ast"
	"go/parser"
	"go/printer"
	"go/token"
	"path/filepath"
	"regexp"
	"strconv"
	"strings"
	"sync"

	"genir/lay"
)

type goFile struct {
	fset    *token.FileSet
	file    *ast.File
	typeIDs map[uint64]string
	methods map[string]map[string]*ast.FuncDecl
	funcs   map[string]*ast.FuncDecl
	consts  map[string]string   // const name -> literal text
	whichOf map[string][]string // X_Which -> constant names in source order
	statics map[string][]byte   // var x_<fileid> = []byte{...}
	pkg     string
}

func parseGo(path string) (*goFile, error) {
	fset := token.NewFileSet()
	f, err := parser.ParseFile(fset, path, nil, 0)
	if err != nil {
		return nil, err
	}
	g := &goFile{fset: fset, file: f, typeIDs: map[uint64]string{}, methods: map[string]map[string]*ast.FuncDecl{},
		funcs: map[string]*ast.FuncDecl{}, consts: map[string]string{}, statics: map[string][]byte{}, whichOf: map[string][]string{}, pkg: f.Name.Name}
	for _, d := range f.Decls {
		switch d := d.(type) {
		case *ast.FuncDecl:
			if d.Recv == nil {
				g.funcs[d.Name.Name] = d
				continue
			}
			if len(d.Recv.List) != 1 {
				continue
			}
			id, ok := d.Recv.List[0].Type.(*ast.Ident)
			if !ok {
				continue
			}
			if g.methods[id.Name] == nil {
				g.methods[id.Name] = map[string]*ast.FuncDecl{}
			}
			if _, dup := g.methods[id.Name][d.Name.Name]; dup {
				return nil, fmt.Errorf("duplicate method %s.%s", id.Name, d.Name.Name)
			}
			g.methods[id.Name][d.Name.Name] = d
		case *ast.GenDecl:
			if d.Tok == token.VAR {
				for _, sp := range d.Specs {
					vs := sp.(*ast.ValueSpec)
					if len(vs.Names) != 1 || len(vs.Values) != 1 || !strings.HasPrefix(vs.Names[0].Name, "x_") {
						continue
					}
					cl, ok := vs.Values[0].(*ast.CompositeLit)
					if !ok {
						continue
					}
					bs := make([]byte, 0, len(cl.Elts))
					for _, e := range cl.Elts {
						lit, ok := e.(*ast.BasicLit)
						if !ok {
							return nil, fmt.Errorf("static data %s: element is not a literal", vs.Names[0].Name)
						}
						v, err := strconv.ParseUint(lit.Value, 0, 8)
						if err != nil {
							return nil, fmt.Errorf("static data %s: %v", vs.Names[0].Name, err)
						}
						bs = append(bs, byte(v))
					}
					g.statics[vs.Names[0].Name] = bs
				}
				continue
			}
			if d.Tok != token.CONST {
				continue
			}
			for _, sp := range d.Specs {
				vs := sp.(*ast.ValueSpec)
				for i, n := range vs.Names {
					if i >= len(vs.Values) {
						continue
					}
					lit, ok := vs.Values[i].(*ast.BasicLit)
					if !ok {
						continue
					}
					g.consts[n.Name] = lit.Value
					if strings.HasSuffix(n.Name, "_TypeID") && lit.Kind == token.INT {
						v, err := strconv.ParseUint(lit.Value, 0, 64)
						if err == nil {
							g.typeIDs[v] = strings.TrimSuffix(n.Name, "_TypeID")
						}
					}
					if tid, ok := vs.Type.(*ast.Ident); ok && strings.HasSuffix(tid.Name, "_Which") {
						g.whichOf[tid.Name] = append(g.whichOf[tid.Name], n.Name)
					}
				}
			}
		}
	}
	return g, nil
}

func (g *goFile) TypeOfID(id uint64) (string, bool) { s, ok := g.typeIDs[id]; return s, ok }

func (g *goFile) GroupType(recv, method string) (string, bool) {
	d := g.methods[recv][method]
	if d == nil || d.Type.Results == nil || len(d.Type.Results.List) != 1 {
		return "", false
	}
	id, ok := d.Type.Results.List[0].Type.(*ast.Ident)
	if !ok {
		return "", false
	}
	return id.Name, true
}

var spaces = regexp.MustCompile(`\s+`)

// stmts prints each top-level statement of the body with all white space removed.
func (g *goFile) stmts(d *ast.FuncDecl) []string {
	var out []string
	for _, s := range d.Body.List {
		var b bytes.Buffer
		printer.Fprint(&b, g.fset, s)
		out = append(out, spaces.ReplaceAllString(b.String(), ""))
	}
	return out
}

func (g *goFile) typeText(e ast.Expr) string {
	var b bytes.Buffer
	printer.Fprint(&b, g.fset, e)
	return spaces.ReplaceAllString(b.String(), "")
}

const num = `(0x[0-9a-fA-F]+|[0-9]+)`
const ident = `[A-Za-z_][A-Za-z0-9_]*`
const qident = `(?:` + ident + `\.)?` + ident

var (
	reCheck   = regexp.MustCompile(`^ifs\.Struct\.Uint16\(` + num + `\)!=` + num + `\{panic\("Which\(\)!=.*"\)\}$`)
	reHasChk  = regexp.MustCompile(`^ifs\.Struct\.Uint16\(` + num + `\)!=` + num + `\{returnfalse\}$`)
	reSetTag  = regexp.MustCompile(`^s\.Struct\.SetUint16\(` + num + `,` + num + `\)$`)
	reGetBit  = regexp.MustCompile(`^return(!?)s\.Struct\.Bit\(` + num + `\)$`)
	reSetBit  = regexp.MustCompile(`^s\.Struct\.SetBit\(` + num + `,(!?)v\)$`)
	reGetU    = regexp.MustCompile(`^returns\.Struct\.Uint(8|16|32|64)\(` + num + `\)(?:\^` + num + `)?$`)
	reGetConv = regexp.MustCompile(`^return(` + qident + `)\(s\.Struct\.Uint(8|16|32|64)\(` + num + `\)(?:\^` + num + `)?\)$`)
	reSetU    = regexp.MustCompile(`^s\.Struct\.SetUint(8|16|32|64)\(` + num + `,v(?:\^` + num + `)?\)$`)
	reSetConv = regexp.MustCompile(`^s\.Struct\.SetUint(8|16|32|64)\(` + num + `,(` + qident + `)\(v\)(?:\^` + num + `)?\)$`)
	rePtr     = regexp.MustCompile(`^p,err:=s\.Struct\.Ptr\(` + num + `\)$`)
	rePtrI    = regexp.MustCompile(`^p,_:=s\.Struct\.Ptr\(` + num + `\)$`)
	reErrRet  = regexp.MustCompile(`^iferr!=nil\{return(` + qident + `\{\}|nil),err\}$`)
	reStatic  = `x_[0-9a-f]+\[[0-9]+:[0-9]+\]`
	reHasPtr  = regexp.MustCompile(`^returns\.Struct\.HasPtr\(` + num + `\)$`)
	reSetPtrE = regexp.MustCompile(`^err=s\.Struct\.SetPtr\(` + num + `,(ss\.Struct|l\.List)\.ToPtr\(\)\)$`)
)

var rxCache sync.Map

// rx compiles a pattern once.
func rx(p string) *regexp.Regexp {
	if r, ok := rxCache.Load(p); ok {
		return r.(*regexp.Regexp)
	}
	r := regexp.MustCompile(p)
	rxCache.Store(p, r)
	return r
}

func pnum(s string) string {
	v, err := strconv.ParseUint(s, 0, 64)
	if err != nil {
		panic("number " + s)
	}
	return strconv.FormatUint(v, 10)
}

func optnum(s string) string {
	if s == "" {
		return "0"
	}
	return pnum(s)
}

func tagStr(off, val string) string { return fmt.Sprintf("(Some (%s, %s))", pnum(off), pnum(val)) }

type fnErr struct {
	fn  string
	msg string
}

func (e fnErr) Error() string { return e.fn + ": " + e.msg }

var intTypes = map[string]string{"int8": "8", "int16": "16", "int32": "32", "int64": "64"}

// convOf classifies the Go type of a getter result / setter parameter.
func convOf(ty string, w string) (string, error) {
	switch {
	case ty == "uint"+w:
		return "CUint", nil
	case intTypes[ty] == w:
		return "CInt", nil
	case intTypes[ty] != "" || strings.HasPrefix(ty, "uint") && (ty == "uint8" || ty == "uint16" || ty == "uint32" || ty == "uint64"):
		return "", fmt.Errorf("type %s does not match a %s-bit accessor", ty, w)
	case ty == "float"+w:
		return "CFloat", nil
	case ty == "float32" || ty == "float64":
		return "", fmt.Errorf("type %s does not match a %s-bit accessor", ty, w)
	case ty == "bool" || ty == "string":
		return "", fmt.Errorf("type %s on an integer accessor", ty)
	default:
		if w != "16" {
			return "", fmt.Errorf("named type %s on a %s-bit accessor", ty, w)
		}
		return "CEnum", nil
	}
}

// getter -> "(tag, gbody)"
func (g *goFile) getter(recv, name string) (string, error) {
	d := g.methods[recv][name]
	fn := recv + "." + name
	st := g.stmts(d)
	tag := "None"
	if len(st) > 0 {
		if m := reCheck.FindStringSubmatch(st[0]); m != nil {
			tag = tagStr(m[1], m[2])
			st = st[1:]
		}
	}
	bad := func(msg string) (string, error) {
		return "", fnErr{fn, msg + ": " + strings.Join(st, " ; ")}
	}
	if d.Type.Results == nil || len(d.Type.Results.List) == 0 {
		return bad("getter without result")
	}
	rty := g.typeText(d.Type.Results.List[0].Type)
	res := func(body string) (string, error) { return fmt.Sprintf("(%s, %s)", tag, body), nil }
	if len(st) == 1 {
		if m := reGetBit.FindStringSubmatch(st[0]); m != nil && rty == "bool" {
			return res(fmt.Sprintf("GBit %s %v", pnum(m[2]), m[1] == "!"))
		}
		if m := reGetU.FindStringSubmatch(st[0]); m != nil {
			c, err := convOf(rty, m[1])
			if err != nil || c != "CUint" {
				return bad("unconverted integer getter with result type " + rty)
			}
			return res(fmt.Sprintf("GUint W%s %s %s CUint", m[1], pnum(m[2]), optnum(m[3])))
		}
		if m := reGetConv.FindStringSubmatch(st[0]); m != nil {
			c, err := convOf(rty, m[2])
			if err != nil {
				return bad(err.Error())
			}
			switch c {
			case "CInt", "CEnum":
				if m[1] != rty {
					return bad("conversion " + m[1] + " differs from result type " + rty)
				}
			case "CFloat":
				if m[1] != "math.Float"+m[2]+"frombits" {
					return bad("float getter must use math.Float" + m[2] + "frombits")
				}
			default:
				return bad("conversion on an unsigned getter")
			}
			return res(fmt.Sprintf("GUint W%s %s %s %s", m[2], pnum(m[3]), optnum(m[4]), c))
		}
		if st[0] == "return"+rty+"(s)" && tag == "None" {
			return res("GGroup")
		}
		if m := rx(`^returns\.Struct\.Ptr\(` + num + `\)$`).FindStringSubmatch(st[0]); m != nil && strings.HasSuffix(rty, ".Ptr") {
			return res(fmt.Sprintf("GPtr %s KAnyPtr false", pnum(m[1])))
		}
	}
	if len(st) >= 2 {
		if m := rePtrI.FindStringSubmatch(st[0]); m != nil && len(st) == 2 && st[1] == "return"+rty+"{Client:p.Interface().Client()}" {
			return res(fmt.Sprintf("GPtr %s KInterface false", pnum(m[1])))
		}
		m := rePtr.FindStringSubmatch(st[0])
		if m == nil {
			return bad("unrecognised getter")
		}
		slot := pnum(m[1])
		rest := st[1:]
		if len(rest) == 1 {
			switch {
			case rest[0] == "returnp.Text(),err" && rty == "string":
				return res(fmt.Sprintf("GPtr %s KText false", slot))
			case rx(`^returnp\.TextDefault\(".+"\),err$`).MatchString(rest[0]) && rty == "string":
				return res(fmt.Sprintf("GPtr %s KText true", slot))
			case rest[0] == "return"+rty+"(p.Data()),err":
				return res(fmt.Sprintf("GPtr %s KData false", slot))
			case rx(`^return`+regexp.QuoteMeta(rty)+`\(p\.DataDefault\(\[\]byte\{.+\}\)\),err$`).MatchString(rest[0]):
				return res(fmt.Sprintf("GPtr %s KData true", slot))
			case rest[0] == "return"+rty+"{Struct:p.Struct()},err":
				return res(fmt.Sprintf("GPtr %s KStruct false", slot))
			case rest[0] == "return"+rty+"{List:p.List()},err":
				return res(fmt.Sprintf("GPtr %s KList false", slot))
			}
		}
		if len(rest) == 3 && reErrRet.MatchString(rest[0]) {
			switch {
			case rx(`^ss,err:=p\.StructDefault\(`+reStatic+`\)$`).MatchString(rest[1]) && rest[2] == "return"+rty+"{Struct:ss},err":
				return res(fmt.Sprintf("GPtr %s KStruct true", slot))
			case rx(`^l,err:=p\.ListDefault\(`+reStatic+`\)$`).MatchString(rest[1]) && rest[2] == "return"+rty+"{List:l},err":
				return res(fmt.Sprintf("GPtr %s KList true", slot))
			}
		}
		if len(rest) == 2 && reErrRet.MatchString(rest[0]) &&
			rx(`^returnp\.Default\(`+reStatic+`\)$`).MatchString(rest[1]) {
			return res(fmt.Sprintf("GPtr %s KAnyPtr true", slot))
		}
	}
	return bad("unrecognised getter")
}

// XBytes() -> "(tag, slot)"
func (g *goFile) getBytes(recv, name string) (string, error) {
	d := g.methods[recv][name]
	fn := recv + "." + name
	st := g.stmts(d)
	tag := "None"
	if len(st) > 0 {
		if m := reCheck.FindStringSubmatch(st[0]); m != nil {
			tag = tagStr(m[1], m[2])
			st = st[1:]
		}
	}
	if len(st) == 2 {
		if m := rePtr.FindStringSubmatch(st[0]); m != nil &&
			(st[1] == "returnp.TextBytes(),err" || rx(`^returnp\.TextBytesDefault\(".+"\),err$`).MatchString(st[1])) {
			return fmt.Sprintf("(%s, %s)", tag, pnum(m[1])), nil
		}
	}
	return "", fnErr{fn, "unrecognised Bytes getter: " + strings.Join(st, " ; ")}
}

// setter -> "(tag, sbody)"
func (g *goFile) setter(recv, name string) (string, error) {
	d := g.methods[recv][name]
	fn := recv + "." + name
	st := g.stmts(d)
	tag := "None"
	if len(st) > 0 {
		if m := reSetTag.FindStringSubmatch(st[0]); m != nil {
			tag = tagStr(m[1], m[2])
			st = st[1:]
		}
	}
	bad := func(msg string) (string, error) {
		return "", fnErr{fn, msg + ": " + strings.Join(st, " ; ")}
	}
	res := func(body string) (string, error) { return fmt.Sprintf("(%s, %s)", tag, body), nil }
	nparams := 0
	pty := ""
	if d.Type.Params != nil {
		for _, p := range d.Type.Params.List {
			nparams += len(p.Names)
			pty = g.typeText(p.Type)
			if len(p.Names) != 1 || p.Names[0].Name != "v" {
				return bad("setter parameter is not v")
			}
		}
	}
	if nparams == 0 {
		if len(st) == 0 && tag != "None" {
			return res("SNone")
		}
		return bad("parameterless setter with a body or without _settag")
	}
	if nparams != 1 {
		return bad("setter with several parameters")
	}
	if len(st) == 1 {
		if m := reSetBit.FindStringSubmatch(st[0]); m != nil && pty == "bool" {
			return res(fmt.Sprintf("SBit %s %v", pnum(m[1]), m[2] == "!"))
		}
		if m := reSetU.FindStringSubmatch(st[0]); m != nil {
			c, err := convOf(pty, m[1])
			if err != nil || c != "CUint" {
				return bad("unconverted integer setter with parameter type " + pty)
			}
			return res(fmt.Sprintf("SUint W%s %s %s CUint", m[1], pnum(m[2]), optnum(m[3])))
		}
		if m := reSetConv.FindStringSubmatch(st[0]); m != nil {
			c, err := convOf(pty, m[1])
			if err != nil {
				return bad(err.Error())
			}
			switch c {
			case "CInt", "CEnum":
				if m[3] != "uint"+m[1] {
					return bad("setter must convert with uint" + m[1])
				}
			case "CFloat":
				if m[3] != "math.Float"+m[1]+"bits" {
					return bad("float setter must use math.Float" + m[1] + "bits")
				}
			default:
				return bad("conversion on an unsigned setter")
			}
			return res(fmt.Sprintf("SUint W%s %s %s %s", m[1], pnum(m[2]), optnum(m[4]), c))
		}
		for _, c := range []struct{ re, kind, def string }{
			{`^returns\.Struct\.SetText\(` + num + `,v\)$`, "KText", "false"},
			{`^returns\.Struct\.SetNewText\(` + num + `,v\)$`, "KText", "true"},
			{`^returns\.Struct\.SetData\(` + num + `,v\)$`, "KData", "false"},
			{`^returns\.Struct\.SetPtr\(` + num + `,v\.Struct\.ToPtr\(\)\)$`, "KStruct", "false"},
			{`^returns\.Struct\.SetPtr\(` + num + `,v\.List\.ToPtr\(\)\)$`, "KList", "false"},
			{`^returns\.Struct\.SetPtr\(` + num + `,v\)$`, "KAnyPtr", "false"},
		} {
			if m := rx(c.re).FindStringSubmatch(st[0]); m != nil {
				if c.kind == "KText" && pty != "string" || c.kind == "KAnyPtr" && !strings.HasSuffix(pty, ".Ptr") {
					return bad("parameter type " + pty)
				}
				return res(fmt.Sprintf("SPtr %s %s %s", pnum(m[1]), c.kind, c.def))
			}
		}
	}
	if len(st) == 2 && st[0] == "ifv==nil{v=[]byte{}}" {
		if m := rx(`^returns\.Struct\.SetData\(` + num + `,v\)$`).FindStringSubmatch(st[1]); m != nil {
			return res(fmt.Sprintf("SPtr %s KData true", pnum(m[1])))
		}
	}
	if len(st) == 4 {
		m1 := rx(`^if!v\.Client\.IsValid\(\)\{returns\.Struct\.SetPtr\(` + num + `,capnp\.Ptr\{\}\)\}$`).FindStringSubmatch(st[0])
		m4 := rx(`^returns\.Struct\.SetPtr\(` + num + `,in\.ToPtr\(\)\)$`).FindStringSubmatch(st[3])
		if m1 != nil && m4 != nil && pnum(m1[1]) == pnum(m4[1]) && st[1] == "seg:=s.Segment()" &&
			rx(`^in:=`+ident+`\.NewInterface\(seg,seg\.Message\(\)\.AddCap\(v\.Client\)\)$`).MatchString(st[2]) {
			return res(fmt.Sprintf("SPtr %s KInterface false", pnum(m1[1])))
		}
	}
	return bad("unrecognised setter")
}

// HasX -> "(tag, slot)"
func (g *goFile) has(recv, name string) (string, error) {
	st := g.stmts(g.methods[recv][name])
	tag := "None"
	if len(st) > 0 {
		if m := reHasChk.FindStringSubmatch(st[0]); m != nil {
			tag = tagStr(m[1], m[2])
			st = st[1:]
		}
	}
	if len(st) == 1 {
		if m := reHasPtr.FindStringSubmatch(st[0]); m != nil {
			return fmt.Sprintf("(%s, %s)", tag, pnum(m[1])), nil
		}
	}
	return "", fnErr{recv + "." + name, "unrecognised Has: " + strings.Join(st, " ; ")}
}

// NewX -> "(tag, slot)"
func (g *goFile) newf(recv, name string) (string, error) {
	st := g.stmts(g.methods[recv][name])
	tag := "None"
	if len(st) > 0 {
		if m := reSetTag.FindStringSubmatch(st[0]); m != nil {
			tag = tagStr(m[1], m[2])
			st = st[1:]
		}
	}
	if len(st) == 4 && reErrRet.MatchString(st[1]) {
		okAlloc := rx(`^ss,err:=`+qident+`\(s\.Struct\.Segment\(\)\)$`).MatchString(st[0]) && st[3] == "returnss,err" ||
			rx(`^l,err:=`+qident+`\(s\.Struct\.Segment\(\),n\)$`).MatchString(st[0]) && st[3] == "returnl,err"
		if m := reSetPtrE.FindStringSubmatch(st[2]); m != nil && okAlloc {
			return fmt.Sprintf("(%s, %s)", tag, pnum(m[1])), nil
		}
	}
	// List(Void): capnp.NewVoidList allocates nothing and returns no error
	if len(st) == 3 && rx(`^l:=`+ident+`\.NewVoidList\(s\.Struct\.Segment\(\),n\)$`).MatchString(st[0]) && st[2] == "returnl,err" {
		if m := rx(`^err:=s\.Struct\.SetPtr\(` + num + `,l\.List\.ToPtr\(\)\)$`).FindStringSubmatch(st[1]); m != nil {
			return fmt.Sprintf("(%s, %s)", tag, pnum(m[1])), nil
		}
	}
	return "", fnErr{recv + "." + name, "unrecognised New: " + strings.Join(st, " ; ")}
}

func optS(s string, err error) (string, error) {
	if err != nil {
		return "", err
	}
	return "(Some " + s + ")", nil
}

// fieldIR builds the accessor_ir term of one field from the emitted methods that exist.
func (g *goFile) fieldIR(f lay.FieldRec) (string, error) {
	ms := g.methods[f.Type]
	parts := []string{"None", "None", "None", "None", "None"}
	var err error
	if ms[f.Name] != nil {
		if parts[0], err = optS(g.getter(f.Type, f.Name)); err != nil {
			return "", err
		}
	}
	if ms[f.Name+"Bytes"] != nil && f.Kind == "text" {
		if parts[1], err = optS(g.getBytes(f.Type, f.Name+"Bytes")); err != nil {
			return "", err
		}
	}
	if ms["Set"+f.Name] != nil {
		if parts[2], err = optS(g.setter(f.Type, "Set"+f.Name)); err != nil {
			return "", err
		}
	}
	if ms["Has"+f.Name] != nil {
		if parts[3], err = optS(g.has(f.Type, "Has"+f.Name)); err != nil {
			return "", err
		}
	}
	if ms["New"+f.Name] != nil && (f.Kind == "struct" || f.Kind == "list") {
		if parts[4], err = optS(g.newf(f.Type, "New"+f.Name)); err != nil {
			return "", err
		}
	}
	return "mkIR " + strings.Join(parts, " "), nil
}

var reObjSize = `` + ident + `\.ObjectSize\{DataSize:` + num + `,PointerCount:` + num + `\}`

func (g *goFile) nodeIR(n lay.NodeRec) (string, error) {
	opt2 := func(d *ast.FuncDecl, re string, ret string) (string, error) {
		if d == nil {
			return "None", nil
		}
		st := g.stmts(d)
		if len(st) == 2 && st[1] == ret {
			if m := rx(re).FindStringSubmatch(st[0]); m != nil {
				return fmt.Sprintf("(Some (%s, %s))", pnum(m[1]), pnum(m[2])), nil
			}
		}
		return "", fnErr{d.Name.Name, "unrecognised constructor: " + strings.Join(st, " ; ")}
	}
	tid := "None"
	if v, ok := g.consts[n.Type+"_TypeID"]; ok {
		tid = "(Some " + pnum(v) + ")"
	}
	nw, err := opt2(g.funcs["New"+n.Type], `^st,err:=`+ident+`\.NewStruct\(s,`+reObjSize+`\)$`, "return"+n.Type+"{st},err")
	if err != nil {
		return "", err
	}
	nr, err := opt2(g.funcs["NewRoot"+n.Type], `^st,err:=`+ident+`\.NewRootStruct\(s,`+reObjSize+`\)$`, "return"+n.Type+"{st},err")
	if err != nil {
		return "", err
	}
	nl, err := opt2(g.funcs["New"+n.Type+"_List"], `^l,err:=`+ident+`\.NewCompositeList\(s,`+reObjSize+`,sz\)$`, "return"+n.Type+"_List{l},err")
	if err != nil {
		return "", err
	}
	which := "None"
	if d := g.methods[n.Type]["Which"]; d != nil {
		st := g.stmts(d)
		m := rx(`^return` + n.Type + `_Which\(s\.Struct\.Uint16\(` + num + `\)\)$`).FindStringSubmatch(strings.Join(st, ";"))
		if m == nil {
			return "", fnErr{n.Type + ".Which", "unrecognised Which: " + strings.Join(st, " ; ")}
		}
		which = "(Some " + pnum(m[1]) + ")"
	}
	var cs []string
	for i, c := range g.whichOf[n.Type+"_Which"] {
		if i < len(n.Names) && c != n.Type+"_Which_"+n.Names[i] {
			return "", fnErr{n.Type + "_Which", "constant " + c + " out of code order"}
		}
		cs = append(cs, pnum(g.consts[c]))
	}
	return fmt.Sprintf("mkNI %s %s %s %s %s [%s]", tid, nw, nr, nl, which, strings.Join(cs, "; ")), nil
}


// ---------------------------------------------------------------- qualified names

// resolver maps an import path to the parsed emitted (or committed) package.
type resolver struct {
	byImport map[string]*goFile
	repo     string
	cache    map[string]*goFile
}

const repoImport = "capnproto.org/go/capnp/v3"

// pkgAt returns the X_TypeID tables of the package at an import path: an emitted file of the
// same request, or a committed generated package of the repository.
func (r *resolver) pkgAt(path string) *goFile {
	if g, ok := r.byImport[path]; ok {
		return g
	}
	if g, ok := r.cache[path]; ok {
		return g
	}
	var g *goFile
	if strings.HasPrefix(path, repoImport) {
		files, _ := filepath.Glob(filepath.Join(r.repo, strings.TrimPrefix(path, repoImport), "*.capnp.go"))
		for _, f := range files {
			pg, err := parseGo(f)
			if err != nil {
				continue
			}
			if g == nil {
				g = pg
			} else {
				for k, v := range pg.typeIDs {
					g.typeIDs[k] = v
				}
			}
		}
	}
	r.cache[path] = g
	return g
}

func (g *goFile) importPath(qual string) (string, bool) {
	for _, im := range g.file.Imports {
		p := strings.Trim(im.Path.Value, "\"")
		name := ""
		if im.Name != nil {
			name = im.Name.Name
		} else if i := strings.LastIndex(p, "/"); i >= 0 {
			name = p[i+1:]
		} else {
			name = p
		}
		if name == qual {
			return p, true
		}
	}
	return "", false
}

// resolve maps a (possibly qualified) Go name of a generated type / constructor to the node id
// of its X_TypeID constant. 0: the name does not resolve (no such import / no such type);
// ok=false: the package is outside the corpus and the repository (nothing to compare with).
func (g *goFile) resolve(expr string, r *resolver) (uint64, bool) {
	qual, name := "", expr
	if i := strings.Index(expr, "."); i >= 0 {
		qual, name = expr[:i], expr[i+1:]
	}
	name = strings.TrimSuffix(strings.TrimSuffix(name, "_Future"), "_List")
	target := g
	if qual != "" {
		p, ok := g.importPath(qual)
		if !ok {
			return 0, true // qualifier that is not imported: does not compile, resolves to nothing
		}
		target = r.pkgAt(p)
		if target == nil {
			// an emitted package of this request must exist; anything else is outside the corpus
			return 0, strings.HasPrefix(p, "c15gen/")
		}
	}
	for id, n := range target.typeIDs {
		if n == name {
			return id, true
		}
	}
	return 0, true
}

func coqRef(want uint64, got []uint64) string {
	var gs []string
	for _, x := range got {
		gs = append(gs, strconv.FormatUint(x, 10))
	}
	return fmt.Sprintf("(%d, [%s])", want, strings.Join(gs, "; "))
}

// fieldTypeRefs: the generated type names a struct / list / enum / interface field's accessors use.
func (g *goFile) fieldTypeRefs(f lay.FieldRec, r *resolver) (string, error) {
	ms := g.methods[f.Type]
	var exprs []string
	if d := ms[f.Name]; d != nil && d.Type.Results != nil && len(d.Type.Results.List) > 0 {
		exprs = append(exprs, g.typeText(d.Type.Results.List[0].Type))
	}
	if d := ms["Set"+f.Name]; d != nil && d.Type.Params != nil && len(d.Type.Params.List) == 1 {
		exprs = append(exprs, g.typeText(d.Type.Params.List[0].Type))
	}
	if d := ms["New"+f.Name]; d != nil && (f.Kind == "struct" || f.Kind == "list") {
		if d.Type.Results != nil && len(d.Type.Results.List) > 0 {
			exprs = append(exprs, g.typeText(d.Type.Results.List[0].Type))
		}
		found := false
		for _, st := range g.stmts(d) {
			if m := rx(`^(?:ss|l),err:=(` + qident + `)\(s\.Struct\.Segment\(\)`).FindStringSubmatch(st); m != nil {
				q := m[1]
				if i := strings.LastIndex(q, "."); i >= 0 {
					q = q[:i+1] + strings.TrimPrefix(q[i+1:], "New")
				} else {
					q = strings.TrimPrefix(q, "New")
				}
				exprs = append(exprs, q)
				found = true
			}
		}
		if !found {
			return "", fnErr{f.Type + ".New" + f.Name, "constructor call not found"}
		}
	}
	if d := g.methods[f.Type+"_Future"][f.Name]; d != nil && (f.Kind == "struct" || f.Kind == "iface") &&
		d.Type.Results != nil && len(d.Type.Results.List) == 1 {
		exprs = append(exprs, g.typeText(d.Type.Results.List[0].Type))
	}
	var got []uint64
	for _, e := range exprs {
		id, ok := g.resolve(e, r)
		if !ok {
			return "", nil // package outside the corpus
		}
		got = append(got, id)
	}
	if len(got) == 0 {
		return "", fnErr{f.Type + "." + f.Name, "no accessor names a generated type"}
	}
	return coqRef(f.TypeID, got), nil
}

// ifaceTypeRefs: parameter and result struct types in the client methods' signatures.
func (g *goFile) ifaceTypeRefs(ifc lay.IfaceRec, r *resolver) ([]string, error) {
	var out []string
	for _, m := range ifc.Methods {
		d := g.methods[ifc.Type][m.Name]
		if d == nil {
			return nil, fnErr{ifc.Type + "." + m.Name, "client method not emitted"}
		}
		bad := fnErr{ifc.Type + "." + m.Name, "unrecognised client method signature"}
		if d.Type.Params == nil || len(d.Type.Params.List) != 2 || d.Type.Results == nil || len(d.Type.Results.List) != 2 {
			return nil, bad
		}
		ft, ok := d.Type.Params.List[1].Type.(*ast.FuncType)
		if !ok || ft.Params == nil || len(ft.Params.List) != 1 {
			return nil, bad
		}
		pid, ok1 := g.resolve(g.typeText(ft.Params.List[0].Type), r)
		rid, ok2 := g.resolve(g.typeText(d.Type.Results.List[0].Type), r)
		if ok1 {
			out = append(out, coqRef(m.ParamID, []uint64{pid}))
		}
		if ok2 {
			out = append(out, coqRef(m.ResultID, []uint64{rid}))
		}
	}
	return out, nil
}


// ---------------------------------------------------------------- pointer defaults

var reStaticRef = regexp.MustCompile(`^(x_[0-9a-f]+)\[([0-9]+):([0-9]+)\]$`)

// staticBytes evaluates "nil" or "x_<id>[a:b]" against the emitted static data variable.
func (g *goFile) staticBytes(expr string) ([]byte, error) {
	if expr == "nil" {
		return nil, nil
	}
	m := reStaticRef.FindStringSubmatch(expr)
	if m == nil {
		return nil, fmt.Errorf("default %q is neither nil nor a slice of the static data", expr)
	}
	data, ok := g.statics[m[1]]
	if !ok {
		return nil, fmt.Errorf("static data variable %s not emitted", m[1])
	}
	a, _ := strconv.Atoi(m[2])
	b, _ := strconv.Atoi(m[3])
	if a > b || b > len(data) {
		return nil, fmt.Errorf("%s out of range (len %d)", expr, len(data))
	}
	return data[a:b], nil
}

func coqBytes(b []byte) string {
	xs := make([]string, len(b))
	for i, x := range b {
		xs[i] = strconv.Itoa(int(x))
	}
	return "[" + strings.Join(xs, "; ") + "]"
}

// defRefs: for a struct / list / anyPointer / interface field, (kind, (schema slot, schema default
// bytes), (emitted slot, emitted default bytes)) of
//   kind 0: the pipelined accessor X_Future.F()  = p.Future.Field(slot, default)
//   kind 1: the getter's StructDefault / ListDefault / Default argument
// anyPointer and interface promise accessors never carry a default (templates pass nil).
func (g *goFile) defRefs(f lay.FieldRec) ([]string, error) {
	var out []string
	emit := func(kind int, want []byte, slot string, got []byte) {
		out = append(out, fmt.Sprintf("(%d, ((%d, %s), (%s, %s)))", kind, f.Off, coqBytes(want), slot, coqBytes(got)))
	}
	if d := g.methods[f.Type+"_Future"][f.Name]; d != nil && (f.Kind == "struct" || f.Kind == "any" || f.Kind == "iface") {
		fn := f.Type + "_Future." + f.Name
		st := g.stmts(d)
		rty := ""
		if d.Type.Results != nil && len(d.Type.Results.List) == 1 {
			rty = g.typeText(d.Type.Results.List[0].Type)
		}
		var m []string
		if len(st) == 1 {
			switch f.Kind {
			case "struct":
				m = rx(`^return` + regexp.QuoteMeta(rty) + `\{Future:p\.Future\.Field\(` + num + `,(nil|` + reStatic + `)\)\}$`).FindStringSubmatch(st[0])
			case "any":
				if strings.HasSuffix(rty, ".Future") && strings.HasPrefix(rty, "*") {
					m = rx(`^returnp\.Future\.Field\(` + num + `,(nil)\)$`).FindStringSubmatch(st[0])
				}
			case "iface":
				m = rx(`^return` + regexp.QuoteMeta(rty) + `\{Client:p\.Future\.Field\(` + num + `,(nil)\)\.Client\(\)\}$`).FindStringSubmatch(st[0])
			}
		}
		if m == nil {
			return nil, fnErr{fn, "unrecognised promise accessor: " + strings.Join(st, " ; ")}
		}
		got, err := g.staticBytes(m[2])
		if err != nil {
			return nil, fnErr{fn, err.Error()}
		}
		want := f.DefBytes
		if f.Kind != "struct" {
			want = nil
		}
		emit(0, want, pnum(m[1]), got)
	}
	if d := g.methods[f.Type][f.Name]; d != nil && len(f.DefBytes) > 0 && (f.Kind == "struct" || f.Kind == "list" || f.Kind == "any") {
		for _, st := range g.stmts(d) {
			if m := rx(`p\.(?:StructDefault|ListDefault|Default)\((` + reStatic + `)\)`).FindStringSubmatch(st); m != nil {
				got, err := g.staticBytes(m[1])
				if err != nil {
					return nil, fnErr{f.Type + "." + f.Name, err.Error()}
				}
				emit(1, f.DefBytes, strconv.FormatUint(uint64(f.Off), 10), got)
			}
		}
	}
	return out, nil
}
