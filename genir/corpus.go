package main

import (
	"bytes"
	"compress/zlib"
	"fmt"
	"go/ast"
	"go/parser"
	"go/token"
	"math"
	"os"
	"path/filepath"
	"sort"
	"strconv"
	"strings"

	capnp "capnproto.org/go/capnp/v3"
	"capnproto.org/go/capnp/v3/std/capnp/schema"
)

// ---------------------------------------------------------------- stored requests

func testdataEntries(repo string) []*entry {
	files, _ := filepath.Glob(filepath.Join(repo, "capnpc-go", "testdata", "*.capnp.out"))
	sort.Strings(files)
	var es []*entry
	for _, f := range files {
		b, err := os.ReadFile(f)
		must(err)
		name := "td_" + strings.TrimSuffix(filepath.Base(f), ".capnp.out")
		// the stored requests are stream-framed messages: keep the bytes as they are
		es = append(es, &entry{name: name, source: "testdata", req: b})
	}
	return es
}

// stdEntries rebuilds a request per std schema from the compressed node lists embedded in the
// committed std/**/*.capnp.go (const schema_<fileid>).
func stdEntries(repo string) []*entry {
	type embedded struct {
		fileID uint64
		nodes  []schema.Node
		base   string // schema file name
		pkg    string // Go package name
		imp    string // Go import path
	}
	var all []embedded
	filepath.Walk(filepath.Join(repo, "std"), func(p string, info os.FileInfo, err error) error {
		if err != nil || info.IsDir() || !strings.HasSuffix(p, ".capnp.go") {
			return nil
		}
		fset := token.NewFileSet()
		f, err := parser.ParseFile(fset, p, nil, 0)
		if err != nil {
			return nil
		}
		for _, d := range f.Decls {
			gd, ok := d.(*ast.GenDecl)
			if !ok || gd.Tok != token.CONST {
				continue
			}
			for _, sp := range gd.Specs {
				vs := sp.(*ast.ValueSpec)
				if len(vs.Names) != 1 || !strings.HasPrefix(vs.Names[0].Name, "schema_") || len(vs.Values) != 1 {
					continue
				}
				id, err := strconv.ParseUint(strings.TrimPrefix(vs.Names[0].Name, "schema_"), 16, 64)
				if err != nil {
					continue
				}
				var lit bytes.Buffer
				var walk func(e ast.Expr) bool
				walk = func(e ast.Expr) bool {
					switch e := e.(type) {
					case *ast.BasicLit:
						s, err := strconv.Unquote(e.Value)
						if err != nil {
							return false
						}
						lit.WriteString(s)
						return true
					case *ast.BinaryExpr:
						return walk(e.X) && walk(e.Y)
					case *ast.ParenExpr:
						return walk(e.X)
					}
					return false
				}
				if !walk(vs.Values[0]) {
					continue
				}
				z, err := zlib.NewReader(bytes.NewReader(lit.Bytes()))
				if err != nil {
					continue
				}
				msg, err := capnp.NewPackedDecoder(z).Decode()
				if err != nil {
					continue
				}
				msg.TraverseLimit = 1 << 40
				req, err := schema.ReadRootCodeGeneratorRequest(msg)
				if err != nil {
					continue
				}
				ns, _ := req.Nodes()
				rel, _ := filepath.Rel(repo, filepath.Dir(p))
				em := embedded{fileID: id, base: strings.TrimSuffix(filepath.Base(p), ".go"), pkg: f.Name.Name,
					imp: "capnproto.org/go/capnp/v3/" + filepath.ToSlash(rel)}
				for i := 0; i < ns.Len(); i++ {
					if ns.At(i).IsValid() && ns.At(i).Id() != 0 {
						em.nodes = append(em.nodes, ns.At(i))
					}
				}
				all = append(all, em)
			}
		}
		return nil
	})
	sort.Slice(all, func(i, j int) bool { return all[i].fileID < all[j].fileID })
	var es []*entry
	for _, em := range all {
		dn := em.base
		msg, seg, err := capnp.NewMessage(capnp.SingleSegment(nil))
		must(err)
		req, err := schema.NewRootCodeGeneratorRequest(seg)
		must(err)
		total := len(all)
		for _, o := range all {
			total += len(o.nodes)
		}
		nl, err := req.NewNodes(int32(total))
		must(err)
		k := 0
		for _, o := range all {
			// the embedded node lists do not contain the file node: rebuild it (id, display name,
			// $Go.package / $Go.import as the committed package has them, nested node names)
			fn := nl.At(k)
			k++
			fn.SetId(o.fileID)
			must(fn.SetDisplayName(o.base))
			fn.SetFile()
			anns, err := fn.NewAnnotations(2)
			must(err)
			for i, a := range []struct {
				id  uint64
				val string
			}{{annPackage, o.pkg}, {annImport, o.imp}} {
				anns.At(i).SetId(a.id)
				v, err := anns.At(i).NewValue()
				must(err)
				must(v.SetText(a.val))
			}
			var nested []schema.Node
			for _, n := range o.nodes {
				if n.ScopeId() == o.fileID {
					nested = append(nested, n)
				}
			}
			nn, err := fn.NewNestedNodes(int32(len(nested)))
			must(err)
			for i, n := range nested {
				d, _ := n.DisplayName()
				must(nn.At(i).SetName(d[n.DisplayNamePrefixLength():]))
				nn.At(i).SetId(n.Id())
			}
			for _, n := range o.nodes {
				must(nl.Set(k, n))
				k++
			}
		}
		rfs, err := req.NewRequestedFiles(1)
		must(err)
		rfs.At(0).SetId(em.fileID)
		must(rfs.At(0).SetFilename(filepath.Base(dn)))
		b, err := msg.Marshal()
		must(err)
		name := "std_" + strings.NewReplacer(".capnp", "", "-", "_", "+", "x", ".", "_").Replace(filepath.Base(dn))
		es = append(es, &entry{name: name, source: "std", req: b})
	}
	return es
}

// ---------------------------------------------------------------- programmatic schemas

type rng struct{ s uint64 }

func (r *rng) u64() uint64 {
	r.s += 0x9e3779b97f4a7c15
	z := r.s
	z = (z ^ (z >> 30)) * 0xbf58476d1ce4e5b9
	z = (z ^ (z >> 27)) * 0x94d049bb133111eb
	return z ^ (z >> 31)
}
func (r *rng) intn(n int) int { return int(r.u64() % uint64(n)) }
func (r *rng) chance(n int) bool { return r.intn(n) == 0 }

type fieldSpec struct {
	name    string
	rename  string
	kind    string
	off     uint32
	disc    uint16
	defBits uint64 // bool/ints/floats/enum
	defText string // text/data
	defPtr  int    // struct/list/any: 0 null, else marker / length
	noDef   bool   // leave defaultValue unset
	listElt string
	group   *nodeSpec
}

type nodeSpec struct {
	id        uint64
	name      string
	display   string
	isGroup   bool
	scope     uint64
	fields    []*fieldSpec
	discCount uint16
	discOff   uint32
	dwc, pc   uint16
}

type alloc struct {
	bits uint32
	ptrs uint32
}

func (a *alloc) data(sz uint32) uint32 {
	if sz > 1 {
		a.bits = (a.bits + sz - 1) / sz * sz
	}
	off := a.bits / sz
	a.bits += sz
	return off
}
func (a *alloc) ptr() uint32 { a.ptrs++; return a.ptrs - 1 }
func (a *alloc) max(b alloc) {
	if b.bits > a.bits {
		a.bits = b.bits
	}
	if b.ptrs > a.ptrs {
		a.ptrs = b.ptrs
	}
}

var kindBits = map[string]uint32{"bool": 1, "i8": 8, "u8": 8, "i16": 16, "u16": 16, "enum": 16, "i32": 32, "u32": 32, "f32": 32,
	"i64": 64, "u64": 64, "f64": 64}
var allKinds = []string{"void", "bool", "i8", "i16", "i32", "i64", "u8", "u16", "u32", "u64", "f32", "f64", "enum", "text",
	"data", "list", "struct", "iface", "any"}
var listElts = []string{"u64", "text", "struct", "enum", "list", "bool", "data", "any", "iface", "i8", "f64", "void"}

type schemaGen struct {
	r       *rng
	fileID  uint64
	base    string // file name
	nodes   []*nodeSpec
	nextID  uint64
	nfield  int
	enumID  uint64
	ifaceID uint64
	structs []*nodeSpec // top level
}

func (g *schemaGen) newID() uint64 { g.nextID += 0x1000193; return g.nextID | 1<<63 }

// mode: 0 zero defaults, 1 non-zero defaults, 2 random
func (g *schemaGen) setDefault(f *fieldSpec, mode int) {
	r := g.r
	nz := mode == 1 || mode == 2 && r.chance(2)
	if !nz {
		return
	}
	switch f.kind {
	case "bool":
		f.defBits = 1
	case "i8", "i16", "i32", "i64", "u8", "u16", "u32", "u64", "f32", "f64":
		b := kindBits[f.kind]
		var mask uint64 = math.MaxUint64
		if b < 64 {
			mask = 1<<b - 1
		}
		switch r.intn(6) {
		case 0:
			f.defBits = 1
		case 1:
			f.defBits = mask // -1 / max
		case 2:
			f.defBits = 1 << (b - 1) // min
		case 3:
			f.defBits = 1<<(b-1) - 1 // max signed
		default:
			f.defBits = r.u64() & mask
		}
		if f.defBits == 0 {
			f.defBits = 1
		}
	case "enum":
		f.defBits = uint64(1 + r.intn(6)) // may exceed the enumerant count
	case "text", "data":
		if r.chance(3) {
			f.defText = "some \"default\" text\\ with spaces"
		} else {
			f.defText = fmt.Sprintf("t%d", 1000+r.intn(1000))
		}
	case "struct":
		f.defPtr = 7000 + r.intn(100)
	case "list":
		f.defPtr = 1 + r.intn(5)
	}
}

func (g *schemaGen) newField(kind string, a *alloc, defMode int, depth int) *fieldSpec {
	g.nfield++
	f := &fieldSpec{name: fmt.Sprintf("f%d", g.nfield), kind: kind, disc: schema.Field_noDiscriminant}
	if g.r.chance(7) {
		f.rename = fmt.Sprintf("renamed%d", g.nfield)
	}
	switch kind {
	case "void":
	case "group":
		f.group = g.newGroupNode(a, defMode, depth+1)
	case "text", "data", "list", "struct", "iface", "any":
		f.off = a.ptr()
		if kind == "list" {
			f.listElt = listElts[g.r.intn(len(listElts))]
		}
	default:
		f.off = a.data(kindBits[kind])
	}
	g.setDefault(f, defMode)
	return f
}

// fill adds fields of the given kinds to n; when union is set some of them become union members
// (sharing their space when overlay is set).
func (g *schemaGen) fill(n *nodeSpec, a *alloc, kinds []string, union bool, overlay bool, defMode int, depth int) {
	r := g.r
	nmem := 0
	if union && len(kinds) >= 2 {
		nmem = 2 + r.intn(len(kinds)-1)
		if nmem > len(kinds) {
			nmem = len(kinds)
		}
		n.discCount = uint16(nmem)
		n.discOff = a.data(16)
	}
	start := *a
	end := *a
	for i, k := range kinds {
		if r.chance(5) { // padding: move to diverse offsets
			a.bits += uint32(r.intn(4)) * 64
			if r.chance(4) {
				a.bits += uint32(r.intn(40)) * 64
			}
			a.ptrs += uint32(r.intn(3))
		}
		if i < nmem {
			m := *a
			if overlay {
				m = start
			}
			f := g.newField(k, &m, defMode, depth)
			f.disc = uint16(i)
			n.fields = append(n.fields, f)
			end.max(m)
			if !overlay {
				*a = m
			}
			if i == nmem-1 {
				a.max(end)
			}
			continue
		}
		n.fields = append(n.fields, g.newField(k, a, defMode, depth))
	}
	a.max(end)
	// code order: shuffle a little
	if r.chance(2) {
		for i := len(n.fields) - 1; i > 0; i-- {
			j := r.intn(i + 1)
			n.fields[i], n.fields[j] = n.fields[j], n.fields[i]
		}
	}
}

func (g *schemaGen) randKinds(n int, depth int) []string {
	ks := make([]string, n)
	for i := range ks {
		if depth < 2 && g.r.chance(6) {
			ks[i] = "group"
		} else {
			ks[i] = allKinds[g.r.intn(len(allKinds))]
		}
	}
	return ks
}

func (g *schemaGen) newGroupNode(a *alloc, defMode int, depth int) *nodeSpec {
	n := &nodeSpec{id: g.newID(), isGroup: true}
	g.nodes = append(g.nodes, n)
	g.fill(n, a, g.randKinds(1+g.r.intn(5), depth), g.r.chance(2), g.r.chance(2), defMode, depth)
	return n
}

func (g *schemaGen) newStruct(name string, kinds []string, union, overlay bool, defMode int) *nodeSpec {
	n := &nodeSpec{id: g.newID(), name: name}
	g.nodes = append(g.nodes, n)
	g.structs = append(g.structs, n)
	var a alloc
	g.fill(n, &a, kinds, union, overlay, defMode, 0)
	n.dwc = uint16((a.bits + 63) / 64)
	n.pc = uint16(a.ptrs)
	return n
}

func withGroups(ks []string) []string {
	return append(append([]string{}, ks...), "group", "group")
}

func randomEntries(seed uint64, count int) []*entry {
	var es []*entry
	for i := 0; i < count; i++ {
		r := &rng{s: seed*0x9e3779b97f4a7c15 + uint64(i)*0x632be59bd9b4e019 + 77}
		g := &schemaGen{r: r, base: fmt.Sprintf("r%d.capnp", i)}
		g.nextID = r.u64() >> 8
		g.fileID = g.newID()
		g.enumID = g.newID()
		g.ifaceID = g.newID()
		switch i {
		case 0: // every kind, zero defaults, no union
			g.newStruct("S0", allKinds, false, false, 0)
			g.newStruct("S1", withGroups(allKinds), false, false, 0)
		case 1: // every kind, non-zero defaults
			g.newStruct("S0", allKinds, false, false, 1)
			g.newStruct("S1", withGroups(allKinds), false, false, 1)
		case 2: // every kind as a union member
			g.newStruct("S0", withGroups(allKinds), true, false, 0)
			g.newStruct("S1", withGroups(allKinds), true, true, 1)
		case 3:
			g.newStruct("S0", withGroups(allKinds), true, true, 2)
			g.newStruct("S1", withGroups(append(allKinds, allKinds...)), true, false, 2)
		default:
			ns := 1 + r.intn(3)
			for k := 0; k < ns; k++ {
				g.newStruct(fmt.Sprintf("S%d", k), g.randKinds(2+r.intn(14), 0), r.chance(2), r.chance(2), 2)
			}
		}
		es = append(es, &entry{name: fmt.Sprintf("r%d", i), source: "random", req: g.build(fmt.Sprintf("r%d", i))})
	}
	return es
}

// boundaryEntries: sparse structs at the limits of the struct node: dataWordCount / pointerCount up
// to 65535 (ObjectSize must not wrap: 8192 words = 65536 bytes), a few fields at the extreme
// offsets of every width, a pointer in the last slot, the union discriminant far out.
func boundaryEntries() []*entry {
	var es []*entry
	for i, c := range []struct{ dwc, pc uint32 }{{8192, 1}, {8191, 0}, {8200, 65535}, {65535, 0}, {65535, 1}, {65535, 65535}} {
		name := fmt.Sprintf("bnd_%d_%d", c.dwc, c.pc)
		r := &rng{s: 99 + uint64(i)}
		g := &schemaGen{r: r, base: name + ".capnp"}
		g.nextID = 0x7654321 + uint64(i+1)*0x20000000000
		g.fileID, g.enumID, g.ifaceID = g.newID(), g.newID(), g.newID()
		n := &nodeSpec{id: g.newID(), name: "S0", dwc: uint16(c.dwc), pc: uint16(c.pc)}
		g.nodes = append(g.nodes, n)
		g.structs = append(g.structs, n)
		nd := schema.Field_noDiscriminant
		w := c.dwc
		add := func(node *nodeSpec, f *fieldSpec) {
			g.nfield++
			f.name = fmt.Sprintf("f%d", g.nfield)
			node.fields = append(node.fields, f)
		}
		// last word: a 64-bit field; the word before: u8, one bit, i16 (default), u32 (default)
		add(n, &fieldSpec{kind: "u64", off: w - 1, disc: nd})
		add(n, &fieldSpec{kind: "u8", off: 8 * (w - 2), disc: nd})
		add(n, &fieldSpec{kind: "bool", off: 64*(w-2) + 8, disc: nd, defBits: 1})
		add(n, &fieldSpec{kind: "i16", off: 4*(w-2) + 1, disc: nd, defBits: 0xcfc7}) // -12345
		add(n, &fieldSpec{kind: "u32", off: 2*(w-2) + 1, disc: nd, defBits: 0xdeadbeef})
		// union: discriminant in word w-3, members: f64 in word w-4, a pointer (or void)
		n.discCount = 2
		n.discOff = 4 * (w - 3)
		add(n, &fieldSpec{kind: "f64", off: w - 4, disc: 0})
		if c.pc > 0 {
			add(n, &fieldSpec{kind: "text", off: c.pc - 1, disc: 1, defText: "t1234"})
		} else {
			add(n, &fieldSpec{kind: "void", disc: 1})
		}
		if c.pc > 2 {
			add(n, &fieldSpec{kind: "struct", off: c.pc - 2, disc: nd})
			add(n, &fieldSpec{kind: "list", off: 0, disc: nd, listElt: "u64"})
		}
		// a group with a field far out and its own far discriminant
		grp := &nodeSpec{id: g.newID(), isGroup: true, discCount: 2, discOff: 4*(w-5) + 3}
		g.nodes = append(g.nodes, grp)
		add(grp, &fieldSpec{kind: "i32", off: 2 * (w - 5), disc: 0, defBits: 0xffffffff})
		add(grp, &fieldSpec{kind: "enum", off: 4*(w-5) + 2, disc: 1, defBits: 2})
		add(n, &fieldSpec{kind: "group", disc: nd, group: grp})
		es = append(es, &entry{name: name, source: "boundary", req: g.build(name)})
	}
	return es
}

// sharedSlotEntries: union members that share ONE pointer slot and have DIFFERENT struct defaults
// (plus members without default, AnyPointer, interface, text in the same slot), also inside a group
// and inside a group nested in a union member group.
func sharedSlotEntries() []*entry {
	name := "shared_slot"
	r := &rng{s: 4711}
	g := &schemaGen{r: r, base: name + ".capnp"}
	g.nextID = 0x5151515 + 0x30000000000
	g.fileID, g.enumID, g.ifaceID = g.newID(), g.newID(), g.newID()
	nd := schema.Field_noDiscriminant
	add := func(node *nodeSpec, f *fieldSpec) {
		g.nfield++
		f.name = fmt.Sprintf("f%d", g.nfield)
		node.fields = append(node.fields, f)
	}
	// union of members all living in pointer slot `slot`, discriminant at 16-bit offset doff
	members := func(node *nodeSpec, slot, doff uint32, base int) {
		node.discOff = doff
		add(node, &fieldSpec{kind: "struct", off: slot, disc: 0, defPtr: base + 1})
		add(node, &fieldSpec{kind: "struct", off: slot, disc: 1, defPtr: base + 2})
		add(node, &fieldSpec{kind: "struct", off: slot, disc: 2})
		add(node, &fieldSpec{kind: "any", off: slot, disc: 3})
		add(node, &fieldSpec{kind: "iface", off: slot, disc: 4})
		add(node, &fieldSpec{kind: "struct", off: slot, disc: 5, defPtr: base + 3})
		add(node, &fieldSpec{kind: "text", off: slot, disc: 6, defText: "t1777"})
		add(node, &fieldSpec{kind: "list", off: slot, disc: 7, listElt: "u64", defPtr: 2})
		node.discCount = 8
	}
	n := &nodeSpec{id: g.newID(), name: "S0", dwc: 1, pc: 3}
	g.nodes = append(g.nodes, n)
	g.structs = append(g.structs, n)
	members(n, 0, 0, 7100)
	// a plain group with such a union in slot 1
	g1 := &nodeSpec{id: g.newID(), isGroup: true}
	g.nodes = append(g.nodes, g1)
	members(g1, 1, 1, 7200)
	add(n, &fieldSpec{kind: "group", disc: nd, group: g1})
	// a group that is itself a union member of a group, nesting a union in slot 2
	g2 := &nodeSpec{id: g.newID(), isGroup: true}
	g.nodes = append(g.nodes, g2)
	inner := &nodeSpec{id: g.newID(), isGroup: true}
	g.nodes = append(g.nodes, inner)
	members(inner, 2, 3, 7300)
	g2.discCount, g2.discOff = 2, 2
	add(g2, &fieldSpec{kind: "group", disc: 0, group: inner})
	add(g2, &fieldSpec{kind: "struct", off: 2, disc: 1, defPtr: 7400})
	add(n, &fieldSpec{kind: "group", disc: nd, group: g2})
	return []*entry{{name: name, source: "boundary", req: g.build(name)}}
}

// probes of single suspicious generator paths; reported separately from the corpus
func probeEntries() []*entry {
	var es []*entry
	mk := func(name, expect string, f func(g *schemaGen) *fieldSpec) {
		r := &rng{s: 4242}
		g := &schemaGen{r: r, base: name + ".capnp"}
		g.nextID = 0x1234567 + uint64(len(es)+1)*0x10000000000
		g.fileID, g.enumID, g.ifaceID = g.newID(), g.newID(), g.newID()
		n := &nodeSpec{id: g.newID(), name: "P"}
		g.nodes = append(g.nodes, n)
		g.structs = append(g.structs, n)
		var a alloc
		fs := f(g)
		fs.name = "probe"
		fs.rename = ""
		fs.off = 0
		n.fields = []*fieldSpec{fs}
		_ = a
		n.dwc, n.pc = 1, 1
		es = append(es, &entry{name: name, source: "probe", expect: expect, req: g.build(name)})
	}
	mk("probe_anyptr_default", "anyPointer field with a non-null default", func(g *schemaGen) *fieldSpec {
		return &fieldSpec{kind: "any", disc: schema.Field_noDiscriminant, defPtr: 7001}
	})
	mk("probe_list_void", "List(Void) field", func(g *schemaGen) *fieldSpec {
		return &fieldSpec{kind: "list", listElt: "void", disc: schema.Field_noDiscriminant}
	})
	mk("probe_int_nodefault", "Int32 field whose defaultValue pointer is null", func(g *schemaGen) *fieldSpec {
		return &fieldSpec{kind: "i32", disc: schema.Field_noDiscriminant, noDef: true}
	})
	return es
}

const (
	annPackage = 0xbea97f1023792be0
	annImport  = 0xe130b601260e44b5
	annName    = 0xc2b96012172f8df1
)

func (g *schemaGen) setType(t schema.Type, kind, elt string, depth int) {
	switch kind {
	case "void":
		t.SetVoid()
	case "bool":
		t.SetBool()
	case "i8":
		t.SetInt8()
	case "i16":
		t.SetInt16()
	case "i32":
		t.SetInt32()
	case "i64":
		t.SetInt64()
	case "u8":
		t.SetUint8()
	case "u16":
		t.SetUint16()
	case "u32":
		t.SetUint32()
	case "u64":
		t.SetUint64()
	case "f32":
		t.SetFloat32()
	case "f64":
		t.SetFloat64()
	case "text":
		t.SetText()
	case "data":
		t.SetData()
	case "enum":
		t.SetEnum()
		t.Enum().SetTypeId(g.enumID)
	case "struct":
		t.SetStructType()
		t.StructType().SetTypeId(g.structs[0].id)
	case "iface":
		t.SetInterface()
		t.Interface().SetTypeId(g.ifaceID)
	case "any":
		t.SetAnyPointer()
		t.AnyPointer().SetUnconstrained()
	case "list":
		t.SetList()
		et, err := t.List().NewElementType()
		must(err)
		if elt == "list" && depth > 1 {
			elt = "bool"
		}
		g.setType(et, elt, "u8", depth+1)
	default:
		panic("kind " + kind)
	}
}

func (g *schemaGen) setValue(seg *capnp.Segment, v schema.Value, f *fieldSpec) {
	switch f.kind {
	case "void":
		v.SetVoid()
	case "bool":
		v.SetBool(f.defBits != 0)
	case "i8":
		v.SetInt8(int8(f.defBits))
	case "i16":
		v.SetInt16(int16(f.defBits))
	case "i32":
		v.SetInt32(int32(f.defBits))
	case "i64":
		v.SetInt64(int64(f.defBits))
	case "u8":
		v.SetUint8(uint8(f.defBits))
	case "u16":
		v.SetUint16(uint16(f.defBits))
	case "u32":
		v.SetUint32(uint32(f.defBits))
	case "u64":
		v.SetUint64(f.defBits)
	case "f32":
		v.SetFloat32(math.Float32frombits(uint32(f.defBits)))
	case "f64":
		v.SetFloat64(math.Float64frombits(f.defBits))
	case "enum":
		v.SetEnum(uint16(f.defBits))
	case "text":
		must(v.SetText(f.defText))
	case "data":
		if f.defText == "" {
			must(v.SetData(nil))
		} else {
			must(v.SetData([]byte(f.defText)))
		}
	case "iface":
		v.SetInterface()
	case "struct", "any":
		var p capnp.Ptr
		if f.defPtr != 0 {
			st, err := capnp.NewStruct(seg, capnp.ObjectSize{DataSize: 8})
			must(err)
			st.SetUint64(0, uint64(f.defPtr))
			p = st.ToPtr()
		}
		if f.kind == "struct" {
			must(v.SetStructValue(p))
		} else {
			must(v.SetAnyPointer(p))
		}
	case "list":
		var p capnp.Ptr
		if f.defPtr != 0 {
			l, err := capnp.NewPointerList(seg, int32(f.defPtr))
			must(err)
			p = l.List.ToPtr()
		}
		must(v.SetList(p))
	}
}

func (g *schemaGen) build(pkg string) []byte {
	msg, seg, err := capnp.NewMessage(capnp.SingleSegment(nil))
	must(err)
	req, err := schema.NewRootCodeGeneratorRequest(seg)
	must(err)
	// names of groups
	var nameGroups func(n *nodeSpec)
	nameGroups = func(n *nodeSpec) {
		for _, f := range n.fields {
			if f.group != nil {
				f.group.scope = n.id
				f.group.display = n.display + "." + f.name
				f.group.dwc, f.group.pc = n.dwc, n.pc
				nameGroups(f.group)
			}
		}
	}
	for _, s := range g.structs {
		s.display = g.base + ":" + s.name
		s.scope = g.fileID
		nameGroups(s)
	}
	nl, err := req.NewNodes(int32(len(g.nodes) + 3))
	must(err)
	// file node
	fn := nl.At(0)
	fn.SetId(g.fileID)
	must(fn.SetDisplayName(g.base))
	fn.SetDisplayNamePrefixLength(0)
	fn.SetFile()
	anns, err := fn.NewAnnotations(2)
	must(err)
	for i, a := range []struct {
		id  uint64
		val string
	}{{annPackage, pkg}, {annImport, "c15gen/" + pkg}} {
		anns.At(i).SetId(a.id)
		v, err := anns.At(i).NewValue()
		must(err)
		must(v.SetText(a.val))
	}
	nn, err := fn.NewNestedNodes(int32(len(g.structs) + 2))
	must(err)
	for i, s := range g.structs {
		must(nn.At(i).SetName(s.name))
		nn.At(i).SetId(s.id)
	}
	must(nn.At(len(g.structs)).SetName("E0"))
	nn.At(len(g.structs)).SetId(g.enumID)
	must(nn.At(len(g.structs) + 1).SetName("I0"))
	nn.At(len(g.structs) + 1).SetId(g.ifaceID)
	// enum
	en := nl.At(1)
	en.SetId(g.enumID)
	must(en.SetDisplayName(g.base + ":E0"))
	en.SetDisplayNamePrefixLength(uint32(len(g.base) + 1))
	en.SetScopeId(g.fileID)
	en.SetEnum()
	ev, err := en.Enum().NewEnumerants(4)
	must(err)
	for i := 0; i < 4; i++ {
		must(ev.At(i).SetName(fmt.Sprintf("e%d", i)))
		ev.At(i).SetCodeOrder(uint16(i))
	}
	// interface
	in := nl.At(2)
	in.SetId(g.ifaceID)
	must(in.SetDisplayName(g.base + ":I0"))
	in.SetDisplayNamePrefixLength(uint32(len(g.base) + 1))
	in.SetScopeId(g.fileID)
	in.SetInterface()
	// structs and groups
	for i, n := range g.nodes {
		sn := nl.At(3 + i)
		sn.SetId(n.id)
		must(sn.SetDisplayName(n.display))
		if n.isGroup {
			sn.SetDisplayNamePrefixLength(uint32(strings.LastIndex(n.display, ".") + 1))
		} else {
			sn.SetDisplayNamePrefixLength(uint32(len(g.base) + 1))
		}
		sn.SetScopeId(n.scope)
		sn.SetStructNode()
		st := sn.StructNode()
		st.SetDataWordCount(n.dwc)
		st.SetPointerCount(n.pc)
		st.SetIsGroup(n.isGroup)
		st.SetDiscriminantCount(n.discCount)
		st.SetDiscriminantOffset(n.discOff)
		fl, err := st.NewFields(int32(len(n.fields)))
		must(err)
		for k, f := range n.fields {
			ff := fl.At(k)
			must(ff.SetName(f.name))
			ff.SetCodeOrder(uint16(k))
			ff.SetDiscriminantValue(f.disc)
			if f.rename != "" {
				fa, err := ff.NewAnnotations(1)
				must(err)
				fa.At(0).SetId(annName)
				v, err := fa.At(0).NewValue()
				must(err)
				must(v.SetText(f.rename))
			}
			if f.group != nil {
				ff.SetGroup()
				ff.Group().SetTypeId(f.group.id)
				continue
			}
			ff.SetSlot()
			ff.Slot().SetOffset(f.off)
			ty, err := ff.Slot().NewType()
			must(err)
			g.setType(ty, f.kind, f.listElt, 0)
			if !f.noDef {
				dv, err := ff.Slot().NewDefaultValue()
				must(err)
				g.setValue(seg, dv, f)
			}
		}
	}
	rfs, err := req.NewRequestedFiles(1)
	must(err)
	rfs.At(0).SetId(g.fileID)
	must(rfs.At(0).SetFilename(g.base))
	b, err := msg.Marshal()
	must(err)
	return b
}


// ---------------------------------------------------------------- multi-file requests

type mfStruct struct {
	id      uint64
	name    string
	dwc, pc uint16
	fields  []mfField
}

type mfField struct {
	name string
	slot uint32
	ref   uint64 // struct type id
	list  bool   // List(ref)
	iface bool   // interface-typed field
}

type mfFile struct {
	id       uint64
	filename string
	pkg, imp string
	structs  []*mfStruct
	iface    *mfIface
}

type mfIface struct {
	id      uint64
	name    string
	methods [][2]uint64 // (param struct id, result struct id)
}

// multiFileEntries: requests with several requested files whose Go packages collide by NAME
// (two packages "common" at different import paths; a package called like a reserved import,
// "text"/"math"), and a main file that refers to each of them repeatedly: struct fields,
// List(struct) fields, interface method parameters / results.  The two "Foo" have different
// sizes, so a qualifier resolved to the wrong package is visible in the element size.
func multiFileEntries() []*entry {
	var es []*entry
	mk := func(name string, others []*mfFile, refs []*mfStruct) {
		base := uint64(0x9100000000000000) + uint64(len(es)+1)<<40
		nid := func() uint64 { base += 0x10001; return base }
		for _, f := range others {
			f.id = nid()
			for _, s := range f.structs {
				s.id = nid()
			}
		}
		main := &mfStruct{name: "Main", dwc: 1}
		slot := uint32(0)
		add := func(ref *mfStruct, list bool) {
			main.fields = append(main.fields, mfField{name: fmt.Sprintf("f%d", slot), slot: slot, ref: ref.id, list: list})
			slot++
		}
		// every type is referred to several times, struct and list fields interleaved
		for round := 0; round < 2; round++ {
			for _, r := range refs {
				add(r, false)
				add(r, true)
			}
		}
		main.pc = uint16(slot)
		main.id = nid()
		mf := &mfFile{id: nid(), filename: name + ".capnp", pkg: name, imp: "c15gen/" + name, structs: []*mfStruct{main}}
		ifc := &mfIface{id: nid(), name: "Svc"}
		for i := range refs {
			ifc.methods = append(ifc.methods, [2]uint64{refs[i].id, refs[(i+1)%len(refs)].id})
		}
		ifc.methods = append(ifc.methods, ifc.methods...) // second reference in the same file
		mf.iface = ifc
		es = append(es, &entry{name: name, source: "multifile", req: buildMulti(append([]*mfFile{mf}, others...))})
	}
	{
		x := &mfStruct{name: "Foo", dwc: 1, pc: 0}
		y := &mfStruct{name: "Foo", dwc: 3, pc: 2}
		mk("mf_common", []*mfFile{
			{filename: "x/common.capnp", pkg: "common", imp: "c15gen/mf_common/x", structs: []*mfStruct{x}},
			{filename: "y/common.capnp", pkg: "common", imp: "c15gen/mf_common/y", structs: []*mfStruct{y}},
		}, []*mfStruct{x, y})
	}
	{
		t := &mfStruct{name: "Bar", dwc: 2, pc: 1}
		m := &mfStruct{name: "Baz", dwc: 0, pc: 3}
		mk("mf_reserved", []*mfFile{
			{filename: "t/text.capnp", pkg: "text", imp: "c15gen/mf_reserved/t", structs: []*mfStruct{t}},
			{filename: "m/math.capnp", pkg: "math", imp: "c15gen/mf_reserved/m", structs: []*mfStruct{m}},
		}, []*mfStruct{t, m})
	}
	{
		// the first reference to the second "common" is an interface-typed field (one qualified name per
		// accessor); the struct and List(struct) fields that follow are later references
		x := &mfStruct{id: 0x9200000000000011, name: "Foo", dwc: 1, pc: 0}
		y := &mfStruct{id: 0x9200000000000022, name: "Foo", dwc: 3, pc: 2}
		yi := &mfIface{id: 0x9200000000000033, name: "Cap"}
		main := &mfStruct{id: 0x9200000000000044, name: "Main", dwc: 0, pc: 6, fields: []mfField{
			{name: "f0", slot: 0, ref: x.id}, {name: "f1", slot: 1, ref: yi.id, iface: true},
			{name: "f2", slot: 2, ref: y.id}, {name: "f3", slot: 3, ref: y.id, list: true},
			{name: "f4", slot: 4, ref: x.id, list: true}, {name: "f5", slot: 5, ref: y.id, list: true}}}
		es = append(es, &entry{name: "mf_silent", source: "multifile", req: buildMulti([]*mfFile{
			{id: 0x9200000000000055, filename: "mf_silent.capnp", pkg: "mf_silent", imp: "c15gen/mf_silent", structs: []*mfStruct{main}},
			{id: 0x9200000000000066, filename: "x/common.capnp", pkg: "common", imp: "c15gen/mf_silent/x", structs: []*mfStruct{x},
				iface: &mfIface{id: 0x9200000000000088, name: "Cap"}},
			{id: 0x9200000000000077, filename: "y/common.capnp", pkg: "common", imp: "c15gen/mf_silent/y", structs: []*mfStruct{y}, iface: yi},
		})})
	}
	return es
}

func buildMulti(files []*mfFile) []byte {
	msg, seg, err := capnp.NewMessage(capnp.SingleSegment(nil))
	must(err)
	req, err := schema.NewRootCodeGeneratorRequest(seg)
	must(err)
	total := 0
	for _, f := range files {
		total += 1 + len(f.structs)
		if f.iface != nil {
			total++
		}
	}
	nl, err := req.NewNodes(int32(total))
	must(err)
	k := 0
	for _, f := range files {
		fn := nl.At(k)
		k++
		fn.SetId(f.id)
		must(fn.SetDisplayName(f.filename))
		fn.SetFile()
		anns, err := fn.NewAnnotations(2)
		must(err)
		for i, a := range []struct {
			id  uint64
			val string
		}{{annPackage, f.pkg}, {annImport, f.imp}} {
			anns.At(i).SetId(a.id)
			v, err := anns.At(i).NewValue()
			must(err)
			must(v.SetText(a.val))
		}
		nn := len(f.structs)
		if f.iface != nil {
			nn++
		}
		nested, err := fn.NewNestedNodes(int32(nn))
		must(err)
		for i, s := range f.structs {
			must(nested.At(i).SetName(s.name))
			nested.At(i).SetId(s.id)
		}
		if f.iface != nil {
			must(nested.At(nn - 1).SetName(f.iface.name))
			nested.At(nn - 1).SetId(f.iface.id)
		}
		for _, s := range f.structs {
			sn := nl.At(k)
			k++
			sn.SetId(s.id)
			must(sn.SetDisplayName(f.filename + ":" + s.name))
			sn.SetDisplayNamePrefixLength(uint32(len(f.filename) + 1))
			sn.SetScopeId(f.id)
			sn.SetStructNode()
			sn.StructNode().SetDataWordCount(s.dwc)
			sn.StructNode().SetPointerCount(s.pc)
			fl, err := sn.StructNode().NewFields(int32(len(s.fields)))
			must(err)
			for i, fd := range s.fields {
				ff := fl.At(i)
				must(ff.SetName(fd.name))
				ff.SetCodeOrder(uint16(i))
				ff.SetDiscriminantValue(schema.Field_noDiscriminant)
				ff.SetSlot()
				ff.Slot().SetOffset(fd.slot)
				ty, err := ff.Slot().NewType()
				must(err)
				dv, err := ff.Slot().NewDefaultValue()
				must(err)
				if fd.iface {
					ty.SetInterface()
					ty.Interface().SetTypeId(fd.ref)
					dv.SetInterface()
				} else if fd.list {
					ty.SetList()
					et, err := ty.List().NewElementType()
					must(err)
					et.SetStructType()
					et.StructType().SetTypeId(fd.ref)
					must(dv.SetList(capnp.Ptr{}))
				} else {
					ty.SetStructType()
					ty.StructType().SetTypeId(fd.ref)
					must(dv.SetStructValue(capnp.Ptr{}))
				}
			}
		}
		if f.iface != nil {
			in := nl.At(k)
			k++
			in.SetId(f.iface.id)
			must(in.SetDisplayName(f.filename + ":" + f.iface.name))
			in.SetDisplayNamePrefixLength(uint32(len(f.filename) + 1))
			in.SetScopeId(f.id)
			in.SetInterface()
			ms, err := in.Interface().NewMethods(int32(len(f.iface.methods)))
			must(err)
			for i, m := range f.iface.methods {
				must(ms.At(i).SetName(fmt.Sprintf("m%d", i)))
				ms.At(i).SetCodeOrder(uint16(i))
				ms.At(i).SetParamStructType(m[0])
				ms.At(i).SetResultStructType(m[1])
			}
		}
	}
	rfs, err := req.NewRequestedFiles(int32(len(files)))
	must(err)
	for i, f := range files {
		rfs.At(i).SetId(f.id)
		must(rfs.At(i).SetFilename(f.filename))
	}
	b, err := msg.Marshal()
	must(err)
	return b
}
