(* C12 driver: trace acceptor for the extracted model coq/Server/Server.v.

   A case line is one history:
     h <max> <qsize> <fixed> <n> <spec_0> .. <spec_{n-1}> | <decision> <obs> <state> <decision> <obs> <state> ...
   spec: d:<pred> / s:<pred> (direct call made with Recv / Send) | p<on>:<pred>:<field> (pipelined on call <on>); pred = - or the call
   issued just before by the same caller.
   decision: I<c> issue, K<p> the (slow) target of delivered queued call p acknowledges delivery, A<c> ack, R<c>o|e implementation returns ok/error, T<p>o|e target of a
   delivered pipelined call returns, X<c> cancel the caller's context, Z Shutdown.
   obs:  [e1,e2,..]  ordered events seen by the instrumented implementations until quiescence:
         b<c> (m.Impl invoked), v<p>:r<c> / v<p>:f<c> (pipelined p delivered to result of c /
         forwarded to the pipeline caller of c), u (user Shutdown ran)
   state: completions / returned calls / cancelled running implementations at the quiescent point,
         written  LBRACE compl BAR returned BAR cancelled RBRACE.

   The driver keeps the set of model configurations that are consistent with what was seen
   so far: after each decision (a model step that must be enabled) it explores all
   interleavings of the internal steps, keeps the runs whose visible events are exactly the
   observed ones in the observed order, that end in a configuration with no internal step
   enabled (quiescent, as synctest.Wait reports for the implementation) and whose state
   projection equals the observed one.  An empty set = the implementation did something the
   model does not allow: "reject ...".  Otherwise the summary of the history is printed,
   recomputed from the model's trace. *)
open Model
open Zutil

let n2i = int_of_nat
let i2n = nat_of_int

let show_cls = function COk -> "ok" | CErr o -> "e" ^ string_of_int (n2i o) | CCtx -> "ctx" | CFail -> "fail"
(* calls made with Send are observed through their Answer, which annotates errors: only ok / err *)
let send_mode : bool array ref = ref [||]
let show_cls_for i k =
  if i < Array.length !send_mode && !send_mode.(i) then (match k with COk -> "ok" | _ -> "err") else show_cls k

(* calls made with Send / PipelineSend: the library builds their ReleaseArgs itself, the harness cannot see it *)
let via_ans : bool array ref = ref [||]
let rel_visible i = not (i < Array.length !via_ans && !via_ans.(i))

let visible = function
  | EvBegin c -> Some ("b" ^ string_of_int (n2i c))
  | EvDeliver (p, DRes c) -> Some (Printf.sprintf "v%d:r%d" (n2i p) (n2i c))
  | EvDeliver (p, DFwd c) -> Some (Printf.sprintf "v%d:f%d" (n2i p) (n2i c))
  | EvShutUser -> Some "u"
  | _ -> None

let rec take k l = if k <= 0 then [] else match l with [] -> [] | x :: r -> x :: take (k - 1) r

(* visible events emitted by a step from c to c', oldest first *)
let emitted c c' =
  let k = List.length (trace c') - List.length (trace c) in
  List.filter_map visible (List.rev (take k (trace c')))

let rec strip_prefix pre l = match pre, l with
  | [], _ -> Some l
  | x :: p, y :: r when x = y -> strip_prefix p r
  | _ -> None

let ids n = List.init n (fun i -> i)

let key n c =
  (ongoing c, starting c, full c, drain c, shpc c, panicked c, shcount c,
   List.map (fun i -> let i = i2n i in
     ((spc c i, ipc c i, ppc c i), (cancelled c i, icanc c i, acked c i, gate_rel c i, idone c i),
      (slot c i, ierr c i, gotp c i), (aq_q c i, aq_ph c i), (penq c i, proot c i, pbasis c i, tret c i, compl c i, rel c i))) (ids n))

let internal_tids n c =
  let per i = let x = i2n i in
    (if spc c x <> S0 then [TStart x] else []) @ [TStartCtx x; TImpl x]
    @ (if ppc c x <> PInit then [TPipe x] else []) @ [TPipeCtx x; TEmb x] in
  List.concat_map per (ids n) @ (if shpc c <> ShInit then [TShutdown] else [])

(* state projection, same format as the harness prints *)
let state_obs p n c =
  let compls = List.filter_map (fun i -> let l = compl c (i2n i) in
    if l = [] then None else Some (Printf.sprintf "%d=%s" i (String.concat "+" (List.rev_map (show_cls_for i) l)))) (ids n) in
  let returned = List.filter_map (fun i -> let x = i2n i in
    match p.p_kind x with
    | Direct -> if spc c x = SDone then Some (Printf.sprintf "%d%s" i (if gotp c x then "p" else "n")) else None
    | Pipe _ -> (match ppc c x with
        | PInit | PWaitDrain | PWaitReady -> None
        | _ -> Some (Printf.sprintf "%d%s" i (if penq c x <> None then "q" else "x")))) (ids n) in
  let canc = List.filter_map (fun i -> let x = i2n i in
    if in_impl (ipc c x) && (cancelled c x || icanc c x) then Some (Printf.sprintf "c%d" i) else None) (ids n) in
  let rels = List.filter_map (fun i -> let k = n2i (rel c (i2n i)) in
    if not (rel_visible i) || k = 0 then None
    else Some (if k = 1 then string_of_int i else Printf.sprintf "%dx%d" i k)) (ids n) in
  "{" ^ String.concat "," compls ^ "|" ^ String.concat "," returned ^ "|" ^ String.concat "," canc
  ^ "|" ^ String.concat "," rels ^ "}"

(* all quiescent configurations reachable from (c, rem) by internal steps emitting exactly rem *)
let explore p n (starts : (config * string list) list) (sobs : string) : config list =
  let seen = Hashtbl.create 64 in
  let out = ref [] in
  let outseen = Hashtbl.create 16 in
  let budget = ref 200000 in
  let rec go c rem =
    let k = (key n c, List.length rem) in
    if Hashtbl.mem seen k || !budget <= 0 then () else begin
      Hashtbl.add seen k (); decr budget;
      let any = ref false in
      List.iter (fun t ->
        match step p c t with
        | None -> ()
        | Some c' ->
          any := true;
          (match strip_prefix (emitted c c') rem with
           | Some rem' -> go c' rem'
           | None -> ())) (internal_tids n c);
      if not !any && rem = [] && state_obs p n c = sobs then begin
        let kk = key n c in
        if not (Hashtbl.mem outseen kk) then (Hashtbl.add outseen kk (); out := c :: !out)
      end
    end in
  List.iter (fun (c, rem) -> go c rem) starts;
  !out

let has_sub s sub =
  let n = String.length s and m = String.length sub in
  let rec go i = i + m <= n && (String.sub s i m = sub || go (i + 1)) in go 0
let flags s = match String.split_on_char ':' s with _ :: _ :: _ :: f :: _ -> f | _ -> ""
let is_slow s = has_sub (flags s) "slow"
let is_psend s = has_sub (flags s) "send"

let parse_spec s =
  match String.split_on_char ':' s with
  | k :: pr :: _ ->
    let kind = if k = "d" || k = "s" then Direct else Pipe (i2n (int_of_string (String.sub k 1 (String.length k - 1)))) in
    let pred = if pr = "-" then None else Some (i2n (int_of_string pr)) in
    (kind, pred)
  | _ -> failwith "spec"

let parse_decision tok =
  let num s = i2n (int_of_string s) in
  let body = String.sub tok 1 (String.length tok - 1) in
  match tok.[0] with
  | 'I' -> `Issue (num body)
  | 'A' -> `T (TAck (num body))
  | 'R' -> let l = String.length body in `T (TRet (num (String.sub body 0 (l - 1)), body.[l - 1] = 'e'))
  | 'T' -> let l = String.length body in `T (TTargetRet (num (String.sub body 0 (l - 1)), body.[l - 1] = 'e'))
  | 'X' -> `T (TCancel (num body))
  | 'K' -> `Ack (num body)
  | 'Z' -> `T TShutdown
  | _ -> failwith "decision"

let parse_obs tok =
  (* [a,b,c] *)
  let s = String.sub tok 1 (String.length tok - 2) in
  if s = "" then [] else String.split_on_char ',' s

let summary p n c =
  let tr = List.rev (trace c) in
  let order = List.filter_map (function EvBegin x -> Some (string_of_int (n2i x)) | _ -> None) tr in
  let cur = ref 0 and mx = ref 0 in
  List.iter (function EvBegin _ -> incr cur; if !cur > !mx then mx := !cur
                    | EvImplRet _ -> decr cur | _ -> ()) tr;
  let compls = List.map (fun i -> let l = compl c (i2n i) in
    Printf.sprintf "%d:%s" i (if l = [] then "-" else String.concat "+" (List.rev_map (show_cls_for i) l))) (ids n) in
  let deliv = List.filter_map (fun e -> match e with EvDeliver _ -> visible e | _ -> None) tr in
  let rels = List.map (fun i ->
    if rel_visible i then Printf.sprintf "%d:%d" i (n2i (rel c (i2n i))) else Printf.sprintf "%d:?" i) (ids n) in
  Printf.sprintf "ok order=%s maxrun=%d compl=%s shut=%d deliv=%s rel=%s viol=-%s"
    (String.concat "," order) !mx (String.concat "," compls) (n2i (shcount c))
    (String.concat "," deliv) (String.concat "," rels) (if panicked c then " PANIC" else "")

let run_case line =
  match split_ws line with
  | "h" :: mx :: qs :: fx :: ns :: rest ->
    let n = int_of_string ns in
    let specs = Array.of_list (List.map parse_spec (take n rest)) in
    (* a call is observed coarsely (ok / err) when the direct call at the root of its pipeline was made with Send *)
    let rec root_send i =
      let sp = List.nth rest i in
      match fst specs.(i) with
      | Direct -> String.length sp > 0 && sp.[0] = 's'
      | Pipe on -> is_psend sp || (let o = n2i on in if o < i then root_send o else false) in
    send_mode := Array.init n root_send;
    via_ans := Array.init n (fun i -> let sp = List.nth rest i in
      match fst specs.(i) with
      | Direct -> String.length sp > 0 && sp.[0] = 's'
      | Pipe _ -> is_psend sp);
    let rec drop k l = if k <= 0 then l else match l with [] -> [] | _ :: r -> drop (k - 1) r in
    let items = match drop n rest with "|" :: r -> r | _ -> failwith "sep" in
    let get x = let i = n2i x in if i < n then specs.(i) else (Direct, None) in
    let p = { p_max = i2n (int_of_string mx); p_qsize = i2n (int_of_string qs);
              p_kind = (fun x -> fst (get x)); p_pred = (fun x -> snd (get x)); p_fixed = (fx = "1");
              p_slow = (fun x -> let i = n2i x in i < n && is_slow (List.nth rest i));
              p_relfix = true (* the code as it is; the other variant is only the subject of C12_args_released_once_refuted *) } in
    let cfgs = ref [init p] in
    let idx = ref 0 in
    let result = ref None in
    let rec loop = function
      | [] -> ()
      | ("HANG" | "STUCK") :: _ -> ()
      | d :: o :: s :: r ->
        incr idx;
        let tids = match parse_decision d with
          | `Issue x -> (match fst (get x) with Direct -> [TStart x] | Pipe _ -> [TPipe x])
          | `Ack x -> (match !cfgs with c :: _ -> [TDrainAck (proot c x)] | [] -> [])
          | `T t -> [t] in
        let obs = parse_obs o in
        let starts = List.concat_map (fun c ->
          List.filter_map (fun t -> match step p c t with
            | None -> None
            | Some c' -> (match strip_prefix (emitted c c') obs with Some rem -> Some (c', rem) | None -> None)) tids) !cfgs in
        let enabled = List.exists (fun c -> List.exists (fun t -> step p c t <> None) tids) !cfgs in
        if not enabled then result := Some (Printf.sprintf "reject at=%d decision=%s not-enabled" !idx d)
        else begin
          let next = explore p n starts s in
          if next = [] then begin
            (* what would the model have allowed? show the quiescent outcomes ignoring the observation *)
            result := Some (Printf.sprintf "reject at=%d decision=%s observed=%s%s" !idx d o s)
          end else (cfgs := next; loop r)
        end
      | _ -> result := Some "bad-case" in
    loop items;
    (match !result with
     | Some r -> r
     | None -> summary p n (List.hd !cfgs))
  | [] -> ""
  | _ -> "bad-case"

let () = iter_lines (fun line ->
  if String.trim line = "" then () else
  print_endline (try run_case line with e -> "driver-exception " ^ Printexc.to_string e))
