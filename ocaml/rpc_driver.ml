(* one history per line:  <kind> <fixflags> <boot> <ev>;<ev>;...   ->  one observation line
   (per event: messages (sorted) ~ deliveries ~ local results (sorted) ~ table view, joined by '|';
   then the final reference state of the local servers).  Formats: see harness/cmd/c06/codec.go *)
open Model
open Zutil

let zi s = z_of_int (int_of_string s)
let iz = int_of_z
let split c s = if s = "" then [] else String.split_on_char c s
let rest s k = String.sub s k (String.length s - k)
let dotted s = if s = "-" || s = "" then [] else split '.' s

let desc_of s = match s.[0] with
  | 'n' -> DNone | 'h' -> DSH (zi (rest s 1)) | 'p' -> DSP (zi (rest s 1))
  | 'r' -> DRH (zi (rest s 1)) | _ -> DOther
let pfield_of s = match s.[0] with
  | 'n' -> PNull | 'c' -> PCap (zi (rest s 1)) | 'b' -> PBad | _ -> POther
let content_of s = match s.[0] with
  | 'n' -> KNull | 'c' -> KCap (zi (rest s 1))
  | 's' -> KStruct (List.map pfield_of (dotted (rest s 2)))
  | _ -> KOther
(* payload: <valid><cerr>/<content>/<caps> *)
let payload_of s =
  match split '/' s with
  | [f; c; caps] ->
    { p_valid = f.[0] = '1'; p_cerr = f.[1] = '1'; p_content = content_of c;
      p_caps = if caps = "!" then None else Some (List.map desc_of (dotted caps)) }
  | _ -> failwith ("payload " ^ s)
let xop_of s = match s.[0] with 'n' -> XNoop | 'f' -> XField (zi (rest s 1)) | _ -> XBad
let target_of s = match s.[0] with
  | 'i' -> TgImp (zi (rest s 1))
  | 'a' -> (match split ':' (rest s 1) with
      | [q; "!"] -> TgAns (zi q, None)
      | [q; ops] -> TgAns (zi q, Some (List.map xop_of (dotted ops)))
      | _ -> failwith "target")
  | 'b' -> TgBad
  | _ -> TgErr
let acap_of s = match s.[0] with 'l' -> ALocal (zi (rest s 1)) | 'h' -> AHandle (zi (rest s 1)) | _ -> ANull
let rfield_of s = match s.[0] with 'l' -> FLocal (zi (rest s 1)) | 'o' -> FOther | _ -> FNull
let b s = s = "1"

let event_of (s : string) : event =
  let s = match String.index_opt s '#' with Some i -> String.sub s 0 i | None -> s in
  let a = split ',' (rest s 1) in
  match s.[0], a with
  | 'C', ["~"] -> MNullCall
  | 'R', ["~"] -> MNullReturn
  | 'B', [q] -> MBootstrap (zi q)
  | 'C', [q; tg; p; tc; mok; tag] ->
    MCall (zi q, target_of tg, (if p = "!" then None else Some (payload_of p)), b tc, b mok, zi tag)
  | 'R', [a; rpc; k] ->
    MReturn (zi a, b rpc,
      (match k.[0] with
       | 'r' -> if k = "r!" then RkResults None else RkResults (Some (payload_of (rest k 1)))
       | 'x' -> RkExc (k = "x1")
       | _ -> RkOther))
  | 'F', [q; rrc] -> MFinish (zi q, b rrc)
  | 'L', [i; n] -> MRelease (zi i, zi n)
  | 'D', [tg; cx] ->
    MDisembargo (target_of tg, (match cx.[0] with 's' -> DxSender (zi (rest cx 1)) | 'r' -> DxReceiver (zi (rest cx 1)) | _ -> DxOther))
  | 'U', _ -> MUnimplemented
  | 'A', _ -> MAbort
  | 'K', _ -> MUnknown
  | 'G', _ -> MGarbage
  | 'b', _ -> ABootstrap
  | 'c', [h; caps; tag] -> ACall (zi h, List.map acap_of (dotted caps), zi tag)
  | 'p', [q; x; caps; tag] -> APipe (zi q, List.map zi (dotted x), List.map acap_of (dotted caps), zi tag)
  | 'r', [k; r] ->
    AReturn (zi k, (match r.[0] with
      | 'e' -> ARExc | '0' -> AREmpty
      | _ -> ARResults (List.map rfield_of (dotted (rest r 2)))))
  | 'l', [h] -> ARelease (zi h)
  | 'x', [q] -> ACancel (zi q)
  | 'h', [h] -> AHold (zi h)
  | 'u', [q] -> AUnhold (zi q)
  | 'z', _ -> AClose
  | _ -> failwith ("event " ^ s)

let si z = string_of_int (iz z)
let show_desc = function
  | DNone -> "n" | DSH i -> "h" ^ si i | DSP i -> "p" ^ si i | DRH i -> "r" ^ si i | DOther -> "o"
let show_descs l = if l = [] then "-" else String.concat "." (List.map show_desc l)
let show_x l = if l = [] then "-" else String.concat "." (List.map si l)
let bs x = if x then "1" else "0"

let show_view s = "v" ^ String.concat "," (List.map si (view s))

let show_outputs (o : output list) : string =
  let msgs = ref [] and dels = ref [] and apps = ref [] in
  List.iter (fun x -> match x with
    | OBootstrap q -> msgs := ("B" ^ si q) :: !msgs
    | OCall (q, OTImp i, ds) -> msgs := ("C" ^ si q ^ ",i" ^ si i ^ "," ^ show_descs ds) :: !msgs
    | OCall (q, OTAns (t, x), ds) -> msgs := ("C" ^ si q ^ ",a" ^ si t ^ ":" ^ show_x x ^ "," ^ show_descs ds) :: !msgs
    | OReturnRes (a, ds) -> msgs := ("Rr" ^ si a ^ "," ^ show_descs ds) :: !msgs
    | OReturnExc a -> msgs := ("Rx" ^ si a) :: !msgs
    | OFinish (q, r) -> msgs := ("F" ^ si q ^ "," ^ bs r) :: !msgs
    | ORelease (i, n) -> msgs := ("L" ^ si i ^ "," ^ si n) :: !msgs
    | ODisembargoS (e, q, x) -> msgs := ("Ds" ^ si e ^ "," ^ si q ^ "," ^ show_x x) :: !msgs
    | OUnimpl -> msgs := "U" :: !msgs
    | OAbort -> msgs := "A" :: !msgs
    | LDeliver (j, t, k) -> dels := ("d" ^ si j ^ ":" ^ si t ^ ":" ^ si k) :: !dels
    | LAppRes (n, c) -> apps := ("a" ^ si n ^ ":" ^ (if iz c = 3 then "1" else si c)) :: !apps) o;
  String.concat "+" (List.sort compare !msgs) ^ "~" ^ String.concat "+" (List.rev !dels) ^ "~"
  ^ String.concat "+" (List.sort compare !apps)

let cfg_of (f : string) : cfg =
  let g i = i >= String.length f || f.[i] = '1' in
  { fx14 = g 0; fx15 = g 1; fx16 = g 2; fx17 = g 3; fx19 = g 4; fx20 = g 5; fx21 = g 6; fx22 = g 7; fx23 = g 8; fx24 = g 9; fx25 = g 10 }

let nsrv = 3

let () = iter_lines (fun line ->
  match split_ws line with
  | "x" :: _ :: _ :: evs ->
    (* fault histories (transport write failures) are outside the machine: they are judged by the
       wire-level invariants the harness checks (no crash, no wedge, no question id reused before
       its Finish); the expected observation is "ok" after every event *)
    let evs = match evs with [] -> [] | e :: _ -> split ';' e in
    print_endline ("x" ^ String.concat "" (List.map (fun _ -> "|ok") evs) ^ "|end:ok")
  | kind :: flags :: boot :: evs ->
    let c = cfg_of flags in
    let evs = match evs with [] -> [] | e :: _ -> split ';' e in
    let buf = Buffer.create 256 in
    let rec go s = function
      | [] ->
        (* the application drops its handles, the connection is closed; then the local servers:
           1 = every reference has been released *)
        let n = List.length (s_handles s) in
        let rec fin s k =
          if k < n then (match step c s (ARelease (z_of_int k)) with Ok (s1, _) -> fin s1 (k + 1) | _ -> None)
          else (match step c s AClose with Ok (s1, _) -> Some s1 | _ -> None) in
        (match fin s 0 with
         | None -> Buffer.add_string buf "|end:PANIC"
         | Some s ->
           Buffer.add_string buf "|end:";
           for j = 0 to nsrv - 1 do
             let r = iz (cget (z_of_int j) (s_lrefs s)) in
             Buffer.add_string buf (if r = 0 then "1" else if r > 0 then "0" else "2")
           done;
           Buffer.add_string buf ",d0")
      | e :: r when e.[0] = 'W' ->
        (* composite event W<hold>^<application event>^<peer message>: for the histories it is used in,
           the repaired code behaves as if the two had happened one after the other *)
        (match String.split_on_char '^' e with
         | [_; e1; e2] ->
           (match step c s (event_of e1) with
            | Ok (s1, o1) ->
              (match step c s1 (event_of e2) with
               | Ok (s2, o2) -> Buffer.add_string buf ("|" ^ show_outputs (o1 @ o2) ^ "~" ^ show_view s2); go s2 r
               | Panic _ -> Buffer.add_string buf "|PANIC"
               | Stuck _ -> Buffer.add_string buf "|STUCK")
            | Panic _ -> Buffer.add_string buf "|PANIC"
            | Stuck _ -> Buffer.add_string buf "|STUCK")
         | _ -> failwith ("composite " ^ e))
      | e :: r ->
        (match step c s (event_of e) with
         | Ok (s1, o) ->
           Buffer.add_string buf ("|" ^ show_outputs o ^ "~" ^ show_view s1); go s1 r
         | Panic _ -> Buffer.add_string buf "|PANIC"
         | Stuck _ -> Buffer.add_string buf "|STUCK") in
    go (init (boot = "1")) evs;
    print_endline (kind ^ Buffer.contents buf)
  | [] -> ()
  | _ -> print_endline "bad-case")
