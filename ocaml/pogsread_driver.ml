(* Driver around the extracted model coq/Pogs/PogsRead.v (msg.Root() then pogs.Extract over raw
   segment bytes).  One case per line:
     def <name> <n> <nodes...>                  -> def          (schema stored; token grammar of ocaml/pogs_driver.ml)
     hostile <name> <arena> <T> <D> <segs>      -> hostile <ok|err|rooterr|PANIC|FUEL|DEFAULT> <remaining traversal budget>
   The struct extracted into is the schema's root node, which harness/cmd/c19/mapping.go always
   numbers 1 (newSchema maps the root first).  Repaired code: cfg_strict = cfg_root = true, all fixes on. *)
open Model
open Zutil

(* ---------------------------------------------------------------- token stream (as in pogs_driver.ml) *)
let toks : string list ref = ref []
let next () = match !toks with t :: r -> toks := r; t | [] -> failwith "eof"
let next_int () = int_of_string (next ())
let next_z () = z_of_int (next_int ())
let rec times n f = if n <= 0 then [] else let x = f () in x :: times (n - 1) f

let bits_of_hexw w h = bits_of_z (nat_of_int w) (if h = "-" then Z0 else z_of_hex h)

let rec parse_ptr () : ptrval =
  match next () with
  | "N" -> PNull
  | "B" -> PBytes (bytes_of_hex (next ()))
  | "b" -> let n = next_int () in
    let bytes = bytes_of_hex (next ()) in
    let arr = Array.of_list (List.map int_of_z bytes) in
    PBits (List.init n (fun i -> (arr.(i / 8) lsr (i mod 8)) land 1 = 1))
  | "P" -> let w = next_int () in let n = next_int () in
    PPrims (nat_of_int w, times n (fun () -> bits_of_hexw w (next ())))
  | "L" -> let n = next_int () in PPtrs (times n parse_ptr)
  | "C" -> let n = next_int () in PStructs (times n parse_struct)
  | "S" -> PStruct (parse_struct ())
  | "K" -> PCap (next_z ())
  | t -> failwith ("ptr " ^ t)
and parse_struct () : strct =
  let data = bytes_of_hex (next ()) in
  let pc = next_int () in
  let ps = times pc parse_ptr in
  mk_struct data ps

let rec parse_type () : ftype =
  match next () with
  | "v" -> TVoid | "b" -> TBool
  | "T0" -> TText false | "T1" -> TText true | "D" -> TData
  | "L" -> TList (parse_type ())
  | "S0" -> TStruct (false, next_z ()) | "S1" -> TStruct (true, next_z ())
  | "I" -> TIface | "A" -> TAnyPtr
  | t when t.[0] = 'i' -> TInt (nat_of_int (int_of_string (String.sub t 1 (String.length t - 1))))
  | t -> failwith ("type " ^ t)

let type_width = function TBool -> 1 | TInt w -> int_of_nat w | _ -> 0

let parse_dflt (t : ftype) : dflt =
  match next () with
  | "-" -> DAbsent
  | "z" -> DBits (bits_of_hexw (type_width t) (next ()))
  | "p" -> DPtr (parse_ptr ())
  | "!" -> DBad
  | x -> failwith ("dflt " ^ x)

let parse_dv () = match next () with "-" -> None | h -> Some (bits_of_hexw 16 h)

let parse_field () : field =
  match next () with
  | "s" -> let p = next () = "1" in let dv = parse_dv () in let off = next_z () in
    let t = parse_type () in let d = parse_dflt t in FSlot (p, dv, off, t, d)
  | "g" -> let p = next () = "1" in let dv = parse_dv () in let gid = next_z () in FGroup (p, dv, gid)
  | t -> failwith ("field " ^ t)

let parse_node () : z * snode =
  let id = next_z () in
  let dw = next_z () in let pc = next_z () in
  let disc = (match next () with "-" -> None | x -> Some (z_of_int (int_of_string x))) in
  let wk = (match next () with "n" -> WNone | "w" -> WField | "x" -> WFixed (bits_of_hexw 16 (next ())) | t -> failwith ("wk " ^ t)) in
  let nf = next_int () in
  let fs = times nf parse_field in
  (id, { n_dwords = dw; n_pcount = pc; n_disc = disc; n_which = wk; n_fields = fs })

let schemas : (string, schema) Hashtbl.t = Hashtbl.create 16
let get name = try Hashtbl.find schemas name with Not_found -> failwith ("no schema " ^ name)

(* ---------------------------------------------------------------- segments (as in core_driver.ml) *)
let z_of_dec (s : string) : z =
  let ten = z_of_int 10 in
  let acc = ref Z0 in
  String.iter (fun c -> acc := Z.add (Z.mul !acc ten) (z_of_int (Char.code c - 48))) s; !acc
let rec dec_of_z (x : z) : string =
  match x with
  | Z0 -> "0"
  | Zneg p -> "-" ^ dec_of_z (Zpos p)
  | Zpos _ ->
    let ten = z_of_int 10 in
    let rec go x acc = match x with Z0 -> acc | _ ->
      let q = Z.div x ten and r = Z.modulo x ten in go q (string_of_int (int_of_z r) ^ acc) in
    go x ""

let seg_of s =
  if String.length s > 0 && s.[0] = 'Z' then begin
    match String.split_on_char ':' (String.sub s 1 (String.length s - 1)) with
    | [n; h] -> let pre = bytes_of_hex (if h = "" then "-" else h) in
                let n = int_of_string n in
                pre @ List.init (max 0 (n - List.length pre)) (fun _ -> Z0)
    | _ -> failwith "bad Z segment"
  end else bytes_of_hex s

(* ---------------------------------------------------------------- main *)
let root_id = z_of_int 1
let g_fuel = 16

let () = iter_lines (fun line ->
  toks := split_ws line;
  let out =
    try
      match next () with
      | "def" ->
        let name = next () in
        let n = next_int () in
        let sch = times n parse_node in
        Hashtbl.replace schemas name sch;
        "def"
      | "hostile" ->
        let sch = get (next ()) in
        let _arena = next () in
        let t = next () in let d = next () in
        let segs = (match !toks with s :: _ -> s | [] -> "_") in
        let m = if segs = "_" || segs = "" then [] else List.map seg_of (String.split_on_char ',' segs) in
        let cfg = { cfg_T = z_of_dec t; cfg_D = z_of_dec d; cfg_strict = true; cfg_root = true } in
        let fx = { fx_depth = true; fx_upgrade = true; fx_bit = true } in
        let di = int_of_string d in
        let d_eff = if di = 0 then 64 else di in
        let fuel = nat_of_int ((d_eff + 2) * g_fuel) in
        let (r, st) = extract_msg fuel cfg fx m sch root_id in
        let cls = (match r with
          | TRootErr -> "rooterr"
          | TRootPanic -> "PANIC"
          | TRes (XOk _) -> "ok"
          | TRes XErr -> "err"
          | TRes XPanic -> "PANIC"
          | TRes XFuel -> "FUEL"
          | TRes XDefault -> "DEFAULT") in
        "hostile " ^ cls ^ " " ^ dec_of_z st.x_rl
      | _ -> "bad-case"
    with Failure m -> "bad-case " ^ m | Not_found -> "bad-case notfound" | Invalid_argument m -> "bad-case " ^ m
  in
  print_endline out)
