(* case:  ARENA T D seg,seg,... op;op;... [d:p:f=<expected tree>]   ->  obs;obs;...[;X<tree>]
   The extracted specification-level decoder (coq/Spec) evaluated on the case; T and D are
   ignored (the specification has no limits).  argv: optional "strict". *)
open Model
open Zutil

let strict = Array.length Sys.argv > 1 && Sys.argv.(1) = "strict"
(* mode "c05": case = F <hex of Message.Marshal bytes> <d:p:f=tree the writer believes it wrote>
   -> T<strict spec_decode of the root under these caps>;V<strict_valid_message verdict> *)
let c05 = Array.length Sys.argv > 1 && Sys.argv.(1) = "c05"

let z_of_dec (s : string) : z =
  let neg, s = if String.length s > 0 && s.[0] = '-' then true, String.sub s 1 (String.length s - 1) else false, s in
  let ten = z_of_int 10 in
  let acc = ref Z0 in
  String.iter (fun c -> acc := Z.add (Z.mul !acc ten) (z_of_int (Char.code c - 48))) s;
  if neg then Z.opp !acc else !acc
let rec dec_of_z (x : z) : string =
  match x with
  | Z0 -> "0"
  | Zneg p -> "-" ^ dec_of_z (Zpos p)
  | Zpos _ ->
    let ten = z_of_int 10 in
    let rec go x acc = match x with Z0 -> acc | _ ->
      let q = Z.div x ten and r = Z.modulo x ten in go q (string_of_int (int_of_z r) ^ acc) in
    go x ""

let parse_op (s : string) : sop =
  match String.split_on_char ':' s with
  | ["root"] -> SORoot
  | ["sptr"; h; i] -> SOSPtr (z_of_dec h, z_of_dec i)
  | ["hasptr"; h; i] -> SOHasPtr (z_of_dec h, z_of_dec i)
  | ["uint"; h; o; n] -> SOUint (z_of_dec h, z_of_dec o, z_of_dec n)
  | ["bit"; h; n] -> SOBit (z_of_dec h, z_of_dec n)
  | ["lstruct"; h; i] -> SOLStruct (z_of_dec h, z_of_dec i)
  | ["plat"; h; i] -> SOPLAt (z_of_dec h, z_of_dec i)
  | ["uintat"; h; i; n] -> SOUintAt (z_of_dec h, z_of_dec i, z_of_dec n)
  | ["bitat"; h; i] -> SOBitAt (z_of_dec h, z_of_dec i)
  | ["text"; h] -> SOText (z_of_dec h)
  | ["data"; h] -> SOData (z_of_dec h)
  | ["info"; h] -> SOInfo (z_of_dec h)
  | ["walk"; h; d; p; f] -> SOWalk (z_of_dec h, z_of_dec d, z_of_dec p, z_of_dec f)
  | ["usweep"; h; w] -> SOUSweep (z_of_dec h, z_of_dec w)
  | ["bsweep"; h] -> SOBSweep (z_of_dec h)
  | _ -> failwith ("bad op " ^ s)

let rec tree_str (b : Buffer.t) (t : tree) : unit =
  let list_of ts = List.iteri (fun i t -> if i > 0 then Buffer.add_char b ','; tree_str b t) ts in
  match t with
  | TNull -> Buffer.add_char b '0'
  | TErr -> Buffer.add_char b 'E'
  | TPanic -> Buffer.add_char b '!'
  | TFuel -> Buffer.add_char b 'F'
  | TCap i -> Buffer.add_string b ("C" ^ dec_of_z i)
  | TStruct (d, ps) -> Buffer.add_string b ("S(" ^ hex_of_bytes d ^ "|"); list_of ps; Buffer.add_char b ')'
  | TPtrs (n, es) -> Buffer.add_string b ("L" ^ dec_of_z n ^ "["); list_of es; Buffer.add_char b ']'
  | TComp (n, sz, es) ->
    Buffer.add_string b (Printf.sprintf "M%s:%s:%s[" (dec_of_z n) (dec_of_z sz.dataSize) (dec_of_z sz.pointerCount));
    list_of es; Buffer.add_char b ']'
  | TPrim (w, n, vs) ->
    Buffer.add_string b (Printf.sprintf "V%s:%s[" (dec_of_z w) (dec_of_z n));
    List.iteri (fun i v -> if i > 0 then Buffer.add_char b ','; Buffer.add_string b (dec_of_z v)) vs;
    Buffer.add_char b ']'
  | TBits (n, vs) ->
    Buffer.add_string b (Printf.sprintf "B%s[" (dec_of_z n));
    List.iter (fun v -> Buffer.add_char b (if v then '1' else '0')) vs;
    Buffer.add_char b ']'

let tree_string t = let b = Buffer.create 256 in tree_str b t; Buffer.contents b

(* the shape the accessors report for a list with size code e *)
let list_shape (e : int) dw pc =
  match e with
  | 7 -> (dec_of_z (Z.mul (z_of_int 8) dw), dec_of_z pc, 1, 0)
  | 6 -> ("0", "1", 0, 0)
  | 5 -> ("8", "0", 0, 0) | 4 -> ("4", "0", 0, 0) | 3 -> ("2", "0", 0, 0) | 2 -> ("1", "0", 0, 0)
  | 1 -> ("0", "0", 0, 1)
  | _ -> ("0", "0", 0, 0)

let sval_str (v : sval) : string =
  match v with
  | SNone -> "null"
  | SCapV i -> "K" ^ dec_of_z i
  | SStructV s -> Printf.sprintf "S(%s,%s,%s,%s)" (dec_of_z s.sv_seg) (dec_of_z s.sv_boff) (dec_of_z s.sv_db) (dec_of_z s.sv_pc)
  | SListV (TgtList (seg, a, e, n, dw, pc)) ->
    let (ds, ps, comp, bit) = list_shape (int_of_z e) dw pc in
    Printf.sprintf "L(%s,%s,%s,%s,%s,%d,%d)" (dec_of_z seg) (dec_of_z (Z.mul (z_of_int 8) a)) (dec_of_z n) ds ps comp bit
  | SListV _ -> "badlist"

let obs_str (o : sobs) : string =
  match o with
  | OVal v -> sval_str v
  | OErr -> "err"
  | ORange -> "panic"
  | ONum n -> "N" ^ dec_of_z n
  | OBool x -> if x then "B1" else "B0"
  | OBytes None -> "none"
  | OBytes (Some l) -> "X" ^ hex_of_bytes l
  | OTree t -> "T" ^ tree_string t
  | ONums l -> "U" ^ String.concat "," (List.map dec_of_z l)
  | OBools l -> "Y" ^ String.concat "" (List.map (fun x -> if x then "1" else "0") l)

(* stream framing of encoding.html: (segment count - 1) as u32, each segment's size in words as
   u32, padding to a word boundary, then the segments *)
let split_frame (b : int array) : z list list option =
  let n = Array.length b in
  let u32 o = if o + 4 > n then -1 else b.(o) lor (b.(o+1) lsl 8) lor (b.(o+2) lsl 16) lor (b.(o+3) lsl 24) in
  let cnt = u32 0 in
  if cnt < 0 || cnt > 1000 then None else begin
    let nseg = cnt + 1 in
    let hdr = (4 * (nseg + 1) + 7) / 8 * 8 in
    if hdr > n then None else begin
      let sizes = List.init nseg (fun i -> u32 (4 + 4 * i)) in
      let total = List.fold_left (fun a s -> a + 8 * s) hdr sizes in
      if List.exists (fun s -> s < 0) sizes || total <> n then None else begin
        let off = ref hdr in
        Some (List.map (fun s -> let o = !off in off := o + 8 * s;
                         List.init (8 * s) (fun i -> z_of_int b.(o + i))) sizes)
      end
    end
  end

let verdict_str = function
  | VOk -> "ok" | VUnaligned -> "unaligned" | VInvalid -> "invalid" | VOverlap -> "overlap" | VFuel -> "fuel"

let run_c05 line =
  match split_ws line with
  | [_f; hex; x] ->
    let bytes = Array.of_list (List.map int_of_z (bytes_of_hex hex)) in
    (match split_frame bytes with
     | None -> print_endline "Tnone;Vbad-frame"
     | Some m ->
       let caps = List.hd (String.split_on_char '=' x) in
       (match String.split_on_char ':' caps with
        | [d; p; f] ->
          let fuel = nat_of_int (int_of_string f) in
          let t = spec_decode_root true fuel (z_of_dec d) (z_of_dec p) m in
          print_endline ("T" ^ tree_string t ^ ";V" ^ verdict_str (strict_valid_message fuel m))
        | _ -> print_endline "bad-case"))
  | _ -> print_endline "bad-case"

let run_c05 line = try run_c05 line with Stack_overflow | Out_of_memory -> print_endline "Texception;Vexception"

let () = if c05 then iter_lines run_c05 else iter_lines (fun line ->
  match split_ws line with
  | _arena :: _t :: _d :: rest ->
    let segs, ops, exp = match rest with
      | [s; o; x] -> s, o, Some x
      | [s; o] -> s, o, None
      | [s] -> s, "", None
      | [] -> "", "", None
      | _ -> failwith "bad case" in
    let seg_of s =
      if String.length s > 0 && s.[0] = 'Z' then begin
        match String.split_on_char ':' (String.sub s 1 (String.length s - 1)) with
        | [n; h] -> let pre = bytes_of_hex (if h = "" then "-" else h) in
                    let n = int_of_string n in
                    pre @ List.init (max 0 (n - List.length pre)) (fun _ -> Z0)
        | _ -> failwith "bad Z segment"
      end else bytes_of_hex s in
    let m = if segs = "_" || segs = "" then [] else List.map seg_of (String.split_on_char ',' segs) in
    let ops = if ops = "" || ops = "_" then [] else List.map parse_op (String.split_on_char ';' ops) in
    let obs = List.map obs_str (spec_run_ops strict m ops) in
    let obs = match exp with
      | None -> obs
      | Some "valid" -> obs   (* marks a message that is spec-valid by construction, without a tree *)
      | Some x ->
        (* d:p:f=<tree the encoder started from>: print the decoded root tree under these caps *)
        let caps = List.hd (String.split_on_char '=' x) in
        (match String.split_on_char ':' caps with
         | [d; p; f] ->
           obs @ ["X" ^ tree_string (spec_decode_root strict (nat_of_int (int_of_string f)) (z_of_dec d) (z_of_dec p) m)]
         | _ -> failwith "bad expectation") in
    print_endline (String.concat ";" obs)
  | _ -> print_endline "bad-case")
