(* Translation validation of gotrans: one case per line
     <go_name> <arg> ...      integers as hex with an optional '-', bool as 0/1,
                              ObjectSize flattened to DataSize PointerCount
   -> one line "ok <res> ..." (same flattening) or "panic" (the option-valued definition
   returned None). The definitions are the ones extracted from coq/Gen/GoArith.v. *)
open Model
open Zutil

let z = z_of_hex
let b s = match s with "1" -> true | "0" -> false | _ -> failwith "bool"
let os d p = { dataSize = z d; pointerCount = z p }

let rz x = [hex_of_z x]
let rb x = [if x then "1" else "0"]
let rzb (x, ok) = rz x @ rb ok
let ros s = [hex_of_z s.dataSize; hex_of_z s.pointerCount]
let ok l = "ok " ^ String.concat " " l
let opt f = function Some v -> ok (f v) | None -> "panic"

let run (l : string list) : string =
  match l with
  | ["go_addSize"; a; s] -> ok (rzb (go_addSize (z a) (z s)))
  | ["go_addSizeUnchecked"; a; s] -> ok (rz (go_addSizeUnchecked (z a) (z s)))
  | ["go_element"; a; i; s] -> ok (rzb (go_element (z a) (z i) (z s)))
  | ["go_addOffset"; a; o] -> opt rz (go_addOffset (z a) (z o))
  | ["go_times"; s; n] -> ok (rzb (go_times (z s) (z n)))
  | ["go_timesUnchecked"; s; n] -> ok (rz (go_timesUnchecked (z s) (z n)))
  | ["go_padToWord"; s] -> ok (rz (go_padToWord (z s)))
  | ["go_isZero"; d; p] -> ok (rb (go_isZero (os d p)))
  | ["go_isOneByte"; d; p] -> ok (rb (go_isOneByte (os d p)))
  | ["go_isValid"; d; p] -> ok (rb (go_isValid (os d p)))
  | ["go_pointerSize"; d; p] -> ok (rz (go_pointerSize (os d p)))
  | ["go_totalSize"; d; p] -> ok (rz (go_totalSize (os d p)))
  | ["go_dataWordCount"; d; p] -> opt rz (go_dataWordCount (os d p))
  | ["go_totalWordCount"; d; p] -> opt rz (go_totalWordCount (os d p))
  | ["go_BitOffset_offset"; x] -> ok (rz (go_BitOffset_offset (z x)))
  | ["go_BitOffset_mask"; x] -> ok (rz (go_BitOffset_mask (z x)))
  | ["go_bitListSize"; n] -> ok (rz (go_bitListSize (z n)))
  | ["go_resolve"; o; a] -> ok (rzb (go_resolve (z o) (z a)))
  | ["go_nearPointerOffset"; p; a] -> ok (rz (go_nearPointerOffset (z p) (z a)))
  | ["go_rawStructPointer"; o; d; p] -> opt rz (go_rawStructPointer (z o) (os d p))
  | ["go_rawListPointer"; o; t; n] -> ok (rz (go_rawListPointer (z o) (z t) (z n)))
  | ["go_rawInterfacePointer"; c] -> ok (rz (go_rawInterfacePointer (z c)))
  | ["go_rawFarPointer"; s; o] -> ok (rz (go_rawFarPointer (z s) (z o)))
  | ["go_rawDoubleFarPointer"; s; o] -> ok (rz (go_rawDoubleFarPointer (z s) (z o)))
  | ["go_landingPadNearPointer"; f; t] -> ok (rz (go_landingPadNearPointer (z f) (z t)))
  | ["go_pointerType"; p] -> ok (rz (go_pointerType (z p)))
  | ["go_structSize"; p] -> ok (ros (go_structSize (z p)))
  | ["go_listType"; p] -> ok (rz (go_listType (z p)))
  | ["go_numListElements"; p] -> ok (rz (go_numListElements (z p)))
  | ["go_elementSize"; p] -> opt ros (go_elementSize (z p))
  | ["go_totalListSize"; p] -> opt rzb (go_totalListSize (z p))
  | ["go_rawPointer_offset"; p] -> ok (rz (go_rawPointer_offset (z p)))
  | ["go_withOffset"; p; o] -> ok (rz (go_withOffset (z p) (z o)))
  | ["go_farAddress"; p] -> ok (rz (go_farAddress (z p)))
  | ["go_farSegment"; p] -> ok (rz (go_farSegment (z p)))
  | ["go_otherPointerType"; p] -> ok (rz (go_otherPointerType (z p)))
  | ["go_capabilityIndex"; p] -> ok (rz (go_capabilityIndex (z p)))
  | ["go_inBounds"; n; a] -> ok (rb (go_inBounds (z n) (z a)))
  | ["go_regionInBounds"; n; a; s] -> ok (rb (go_regionInBounds (z n) (z a) (z s)))
  | ["go_pointerAddress"; o; d; p; i] -> ok (rz (go_pointerAddress (z o) (os d p) (z i)))
  | ["go_bitInData"; s; d; p; x] -> ok (rb (go_bitInData (b s) (os d p) (z x)))
  | ["go_dataAddress"; s; o; d; p; x; n] -> opt rzb (go_dataAddress (b s) (z o) (os d p) (z x) (z n))
  | ["go_canRead_step"; c; s] -> ok (rzb (go_canRead_step (z c) (z s)))
  | [] -> ""
  | _ -> "bad-case"

let () = iter_lines (fun line -> print_endline (run (split_ws line)))
