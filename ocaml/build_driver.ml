(* builder-side driver (C04, C05, C16).
   case:  ARENA T D SRCT SRCD NCAPS SRCSEGS FUEL op;op;... [expect=...]   ->  new:ok;obs;obs;...
   ARENA: S:nil | S:<cap> | M:nil | M:<cap> | R:<c1>,<c2>,...
   argv "valid": case = "V seg,seg,..."  ->  strict validity + spec-style tree of real bytes *)
open Model
open Zutil

let z_of_dec (s : string) : z =
  let neg, s = if String.length s > 0 && s.[0] = '-' then true, String.sub s 1 (String.length s - 1) else false, s in
  let ten = z_of_int 10 in
  let acc = ref Z0 in
  String.iter (fun c -> acc := Z.add (Z.mul !acc ten) (z_of_int (Char.code c - 48))) s;
  if neg then Z.opp !acc else !acc
let rec dec_of_z (x : z) : string =
  match x with
  | Z0 -> "0"
  | Zneg p -> "-" ^ dec_of_z (Zpos p)
  | Zpos _ ->
    let ten = z_of_int 10 in
    let rec go x acc = match x with Z0 -> acc | _ ->
      let q = Z.div x ten and r = Z.modulo x ten in go q (string_of_int (int_of_z r) ^ acc) in
    go x ""

let loc_of s = match s with "d" -> InDst | "s" -> InSrc | _ -> failwith ("bad loc " ^ s)
let bool_of s = s = "1"

let parse_op (s : string) : bop =
  let z = z_of_dec in
  match String.split_on_char ':' s with
  | ["newstruct"; sid; d; p] -> BNewStruct (z sid, z d, z p)
  | ["newprim"; sid; sz; n] -> BNewPrim (z sid, z sz, z n)
  | ["newbit"; sid; n] -> BNewBit (z sid, z n)
  | ["newplist"; sid; n] -> BNewPList (z sid, z n)
  | ["newcomp"; sid; d; p; n] -> BNewComp (z sid, z d, z p, z n)
  | ["newvoid"; sid; n] -> BNewVoid (z sid, z n)
  | ["newtext"; sid; h] -> BNewBytes (z sid, bytes_of_hex h, true)
  | ["newdata"; sid; h] -> BNewBytes (z sid, bytes_of_hex h, false)
  | ["newcap"; sid; i] -> BNewCap (z sid, z i)
  | ["addcap"; k] -> BAddCap (Z.opp (Z.add (z k) (z_of_int 2)))
  | ["setuint"; h; o; n; v] -> BSetUint (z h, z o, z n, z v)
  | ["setbit"; h; n; v] -> BSetBit (z h, z n, bool_of v)
  | ["lsetuint"; h; i; n; v] -> BListSetUint (z h, z i, z n, z v)
  | ["bitset"; h; i; v] -> BBitSet (z h, z i, bool_of v)
  | ["setptr"; h; i; hs] -> BSetPtr (z h, z i, z hs)
  | ["plset"; h; i; hs] -> BPLSet (z h, z i, z hs)
  | ["setstruct"; h; i; hs] -> BSetStruct (z h, z i, z hs)
  | ["copyfrom"; h; hs] -> BCopyFrom (z h, z hs)
  | ["setroot"; hs] -> BSetRoot (z hs)
  | ["rt"; d; p; f] -> BRoundTrip (z d, z p, z f)
  | ["dump"; l] -> BDump (loc_of l)
  | ["reopen"; _] -> BReopen
  | ["root"; l] -> BRead (loc_of l, ORoot)
  | ["rlimit"; l] -> BRead (loc_of l, ORLimit)
  | ["sptr"; h; i] -> BRead (InDst, OSPtr (z h, z i))
  | ["hasptr"; h; i] -> BRead (InDst, OHasPtr (z h, z i))
  | ["uint"; h; o; n] -> BRead (InDst, OUint (z h, z o, z n))
  | ["bit"; h; n] -> BRead (InDst, OBit (z h, z n))
  | ["lstruct"; h; i] -> BRead (InDst, OLStruct (z h, z i))
  | ["plat"; h; i] -> BRead (InDst, OPLAt (z h, z i))
  | ["uintat"; h; i; n] -> BRead (InDst, OUintAt (z h, z i, z n))
  | ["bitat"; h; i] -> BRead (InDst, OBitAt (z h, z i))
  | ["text"; h] -> BRead (InDst, OText (z h))
  | ["data"; h] -> BRead (InDst, OData (z h))
  | ["info"; h] -> BRead (InDst, OInfo (z h))
  | ["walk"; h; d; p; f] -> BRead (InDst, OWalk (z h, z d, z p, z f))
  | _ -> failwith ("bad op " ^ s)

let b2i b = if b then 1 else 0
let ptr_str (p : ptr) : string =
  if not p.p_valid then "null" else
  let k = match p.p_kind with KStruct -> 0 | KList -> 1 | KIface -> 2 in
  Printf.sprintf "P(%s,%s,%s,%s,%s,%s,%d,%d,%d,%d)" (dec_of_z p.p_seg) (dec_of_z p.p_off) (dec_of_z p.p_len)
    (dec_of_z p.p_size.dataSize) (dec_of_z p.p_size.pointerCount) (dec_of_z p.p_depth) k
    (b2i p.p_comp) (b2i p.p_bit) (b2i p.p_member)

let rec tree_str (b : Buffer.t) (t : tree) : unit =
  let list_of ts = List.iteri (fun i t -> if i > 0 then Buffer.add_char b ','; tree_str b t) ts in
  match t with
  | TNull -> Buffer.add_char b '0'
  | TErr -> Buffer.add_char b 'E'
  | TPanic -> Buffer.add_char b '!'
  | TFuel -> Buffer.add_char b 'F'
  | TCap i -> Buffer.add_string b ("C" ^ dec_of_z i)
  | TStruct (d, ps) -> Buffer.add_string b ("S(" ^ hex_of_bytes d ^ "|"); list_of ps; Buffer.add_char b ')'
  | TPtrs (n, es) -> Buffer.add_string b ("L" ^ dec_of_z n ^ "["); list_of es; Buffer.add_char b ']'
  | TComp (n, sz, es) ->
    Buffer.add_string b (Printf.sprintf "M%s:%s:%s[" (dec_of_z n) (dec_of_z sz.dataSize) (dec_of_z sz.pointerCount));
    list_of es; Buffer.add_char b ']'
  | TPrim (w, n, vs) ->
    Buffer.add_string b (Printf.sprintf "V%s:%s[" (dec_of_z w) (dec_of_z n));
    List.iteri (fun i v -> if i > 0 then Buffer.add_char b ','; Buffer.add_string b (dec_of_z v)) vs;
    Buffer.add_char b ']'
  | TBits (n, vs) ->
    Buffer.add_string b (Printf.sprintf "B%s[" (dec_of_z n));
    List.iter (fun v -> Buffer.add_char b (if v then '1' else '0')) vs;
    Buffer.add_char b ']'
let tree_s t = let b = Buffer.create 256 in tree_str b t; Buffer.contents b

let oval_str (v : oval) : string =
  match v with
  | VPtr (Ok p) -> ptr_str p
  | VNum (Ok n) -> "N" ^ dec_of_z n
  | VBool (Ok x) -> if x then "B1" else "B0"
  | VBytes (Ok None) -> "none"
  | VBytes (Ok (Some l)) -> "X" ^ hex_of_bytes l
  | VPtr Err | VNum Err | VBool Err | VBytes Err -> "err"
  | VPtr Panic | VNum Panic | VBool Panic | VBytes Panic -> "panic"
  | VTree (t, rl) -> tree_s t ^ "@" ^ dec_of_z rl

let zlist l = if l = [] then "-" else String.concat "," (List.map dec_of_z l)

let bval_str (v : bval) : string =
  match v with
  | BV o -> oval_str o
  | BVUnit (Ok _) -> "ok"
  | BVUnit Err -> "err"
  | BVUnit Panic -> "panic"
  | BVTree t -> "T" ^ tree_s t
  | BVDump (segs, caps, refs, rl) ->
    "D" ^ String.concat "," (List.map (fun (d, c) -> hex_of_bytes d ^ "/" ^ dec_of_z c) segs)
    ^ "|C" ^ zlist caps ^ "|R" ^ zlist refs ^ "|" ^ dec_of_z rl

let parse_segs (segs : string) : z list list =
  if segs = "_" || segs = "" then [] else List.map bytes_of_hex (String.split_on_char ',' segs)

let parse_arena (s : string) : arena_spec =
  match String.split_on_char ':' s with
  | ["S"; "nil"] -> ArSingle None
  | ["S"; c] -> ArSingle (Some (z_of_dec c))
  | ["M"; "nil"] -> ArMulti None
  | ["M"; c] -> ArMulti (Some (z_of_dec c))
  | ["R"; cs] -> ArRaw (if cs = "" then [] else List.map z_of_dec (String.split_on_char ',' cs))
  | _ -> failwith ("bad arena " ^ s)

let verdict_str v = match v with
  | VOk -> "valid" | VBad w -> "invalid:" ^ dec_of_z w | VFuel -> "fuel"

let () = iter_lines (fun line ->
  match split_ws line with
  | "V" :: segs :: fuel :: _ ->
    let m = parse_segs segs in
    print_endline (verdict_str (valid_message m) ^ ";T" ^ tree_s (spec_root_tree m (z_of_dec fuel)))
  | arena :: t :: d :: st :: sd :: ncaps :: segs :: fuel :: rest ->
    let ops = match rest with o :: _ when String.length o < 7 || String.sub o 0 7 <> "expect=" -> o | _ -> "" in
    let cfgd = { cfg_T = z_of_dec t; cfg_D = z_of_dec d; cfg_strict = true; cfg_root = true } in
    let cfgs = { cfg_T = z_of_dec st; cfg_D = z_of_dec sd; cfg_strict = true; cfg_root = true } in
    let ops = if ops = "" || ops = "-" then [] else List.map parse_op (String.split_on_char ';' ops) in
    (match run_build (parse_arena arena) cfgd cfgs (z_of_dec ncaps) (z_of_dec fuel) (parse_segs segs) ops with
     | None -> print_endline "new:err"
     | Some vs -> print_endline (String.concat ";" ("new:ok" :: List.map bval_str vs)))
  | _ -> print_endline "bad-case")
