(* shared helpers for the drivers around extracted models; [Model] is the extracted file *)
open Model

let rec pos_of_int n =
  if n = 1 then XH else if n land 1 = 0 then XO (pos_of_int (n lsr 1)) else XI (pos_of_int (n lsr 1))
let z_of_int n = if n = 0 then Z0 else if n > 0 then Zpos (pos_of_int n) else Zneg (pos_of_int (-n))
let rec int_of_pos = function XH -> 1 | XO p -> 2 * int_of_pos p | XI p -> 2 * int_of_pos p + 1
let int_of_z = function Z0 -> 0 | Zpos p -> int_of_pos p | Zneg p -> - (int_of_pos p)

let rec nat_of_int n = if n <= 0 then O else S (nat_of_int (n - 1))
let int_of_nat n = let rec go acc = function O -> acc | S m -> go (acc + 1) m in go 0 n

(* arbitrary-size non-negative integers as hex strings (most significant digit first) *)
let hexval c = match c with
  | '0'..'9' -> Char.code c - 48 | 'a'..'f' -> Char.code c - 87 | 'A'..'F' -> Char.code c - 55
  | _ -> failwith "hex"
(* bits, least significant first *)
let bits_of_hex (s : string) : bool list =
  let acc = ref [] in
  String.iter (fun c -> let v = hexval c in
    (* more significant digits come first: prepend this digit's bits below what we have *)
    acc := !acc @ [ (v land 8 <> 0); (v land 4 <> 0); (v land 2 <> 0); (v land 1 <> 0) ]) s;
  List.rev !acc
let z_of_hex (s : string) : z =
  let neg, s = if String.length s > 0 && s.[0] = '-' then true, String.sub s 1 (String.length s - 1) else false, s in
  let bits = bits_of_hex s in
  (* strip high zero bits *)
  let rec strip = function [] -> [] | l -> (match List.rev l with false :: r -> strip (List.rev r) | _ -> l) in
  let bits = strip bits in
  let rec build = function
    | [] -> failwith "zero" | [true] -> XH | [false] -> failwith "norm"
    | b :: r -> if b then XI (build r) else XO (build r) in
  match bits with [] -> Z0 | _ -> if neg then Zneg (build bits) else Zpos (build bits)
let rec bits_of_pos = function XH -> [true] | XO p -> false :: bits_of_pos p | XI p -> true :: bits_of_pos p
let hex_of_z (x : z) : string =
  match x with
  | Z0 -> "0"
  | Zpos p | Zneg p ->
    let bits = bits_of_pos p in
    let rec nibbles = function
      | [] -> []
      | l -> let take k l = let rec go k l acc = if k = 0 then (List.rev acc, l) else (match l with [] -> go (k-1) [] (false :: acc) | x :: r -> go (k-1) r (x :: acc)) in go k l [] in
             let (n, r) = take 4 l in
             let v = List.fold_right (fun b a -> 2 * a + (if b then 1 else 0)) n 0 in
             v :: nibbles r in
    let ns = List.rev (nibbles bits) in
    let s = String.concat "" (List.map (Printf.sprintf "%x") ns) in
    (match x with Zneg _ -> "-" ^ s | _ -> s)

(* byte strings: lowercase hex, "-" for the empty string *)
let bytes_of_hex (s : string) : z list =
  if s = "-" then [] else begin
    let n = String.length s / 2 in
    let rec go i acc = if i < 0 then acc else go (i - 1) (z_of_int (hexval s.[2*i] * 16 + hexval s.[2*i+1]) :: acc) in
    go (n - 1) []
  end
let hex_of_bytes (l : z list) : string =
  match l with [] -> "-" | _ ->
    let b = Buffer.create 64 in
    List.iter (fun x -> Buffer.add_string b (Printf.sprintf "%02x" (int_of_z x))) l;
    Buffer.contents b

let split_ws (s : string) : string list =
  List.filter (fun x -> x <> "") (String.split_on_char ' ' s)

let iter_lines (f : string -> unit) =
  try while true do f (input_line stdin) done with End_of_file -> ()
