(* C15: one case per line
     op entry Type Method kind off def disc doff datahex ptrs arg
   -> the observation the SPECIFICATION (field_range semantics: spec_get / spec_set / spec_has /
   spec_which / gen_objsize of coq/Layout/Layout.v) prescribes.  Numbers are decimal. *)
open Model
open Zutil

let ten = z_of_int 10
let z_of_dec (s : string) : z =
  let neg = String.length s > 0 && s.[0] = '-' in
  let acc = ref Z0 in
  String.iteri (fun i c ->
    if i = 0 && neg then () else
    acc := Z.add (Z.mul !acc ten) (z_of_int (Char.code c - 48))) s;
  if neg then Z.opp !acc else !acc

let rec dec_of_pos (x : z) : string =
  (* x >= 0 *)
  match x with
  | Z0 -> ""
  | _ -> dec_of_pos (Z.div x ten) ^ string_of_int (int_of_z (Z.modulo x ten))
let dec_of_z (x : z) : string =
  match x with
  | Z0 -> "0"
  | Zneg _ -> "-" ^ dec_of_pos (Z.opp x)
  | _ -> dec_of_pos x

let kind_of = function
  | "void" -> KVoid | "bool" -> KBool
  | "i8" -> KInt W8 | "i16" -> KInt W16 | "i32" -> KInt W32 | "i64" -> KInt W64
  | "u8" -> KUint W8 | "u16" -> KUint W16 | "u32" -> KUint W32 | "u64" -> KUint W64
  | "f32" -> KFloat32 | "f64" -> KFloat64 | "enum" -> KEnum
  | "text" -> KText | "data" -> KData | "list" -> KList | "struct" -> KStruct
  | "iface" -> KInterface | "any" -> KAnyPtr | "group" -> KGroup
  | _ -> failwith "kind"

let ptrs_of s = if s = "-" then [] else List.map z_of_dec (String.split_on_char ',' s)
let show_ptrs l = match l with [] -> "-" | _ -> String.concat "," (List.map dec_of_z l)
let show_struct s = "ok " ^ hex_of_bytes s.sdata ^ " " ^ show_ptrs s.sptrs

(* the extracted functions recurse over the data section (up to 524280 bytes for a 65535-word
   struct): re-run ourselves under an unlimited stack, stdin/stdout are inherited *)
let () =
  if Array.length Sys.argv < 2 || Sys.argv.(1) <> "--child" then begin
    let cmd = Printf.sprintf "ulimit -s unlimited 2>/dev/null; exec %s --child" (Filename.quote Sys.executable_name) in
    exit (Sys.command cmd)
  end

let () = iter_lines (fun line ->
  match split_ws line with
  | [op; _; _; _; kind; off; def; disc; doff; data; ptrs; arg] ->
    (try
      if op = "size" || op = "lsize" then begin
        let n = { nd_id = Z0; nd_dwc = z_of_dec off; nd_pc = z_of_dec def; nd_isgroup = false;
                  nd_disccount = Z0; nd_discoff = Z0; nd_members = [] } in
        let (d, p) = gen_objsize n in
        print_endline ("ok " ^ dec_of_z d ^ " " ^ dec_of_z p)
      end else begin
        let f = { fd_kind = kind_of kind; fd_off = z_of_dec off; fd_default = z_of_dec def;
                  fd_disc = z_of_dec disc; fd_discoff = z_of_dec doff } in
        let s = { sdata = bytes_of_hex data; sptrs = ptrs_of ptrs } in
        match op with
        | "get" | "getbytes" ->
          print_endline (match spec_get f s with Ok v -> "ok " ^ dec_of_z v | Panic -> "panic" | Escape -> "escape")
        | "set" | "new" ->
          print_endline (match spec_set f (z_of_dec arg) s with Ok s' -> show_struct s' | Panic -> "panic" | Escape -> "escape")
        | "future" -> print_endline ("ok " ^ dec_of_z (spec_future f s))
        | "has" -> print_endline (if spec_has f s then "ok 1" else "ok 0")
        | "which" -> print_endline ("ok " ^ dec_of_z (spec_which f s))
        | _ -> print_endline "bad-case"
      end
    with _ -> print_endline "bad-case")
  | [] -> ()
  | _ -> print_endline "bad-case")
