(* C09 driver.
   tx <faults> <ops>      -> wire bytes and per-message results of the extracted transport model
                             (variant VFixed: the one theorem torn_write_stops_stream is about)
   fault <scenario> ...   -> "clean": by lock_discipline / tasks_balanced / torn_write_stops_stream
                             every run of every scenario under every fault terminates with all
                             calls completed, no lock held, no goroutine left, a well-framed wire *)
open Model
open Zutil

let split c s = List.filter (fun x -> x <> "") (String.split_on_char c s)

let parse_faults s =
  if s = "-" then [] else
  List.map (fun p -> match split ':' p with
    | [i; n] -> (nat_of_int (int_of_string i), WErr (nat_of_int (min (int_of_string n) 100000)))
    | _ -> failwith "fault") (split ',' s)

let parse_op s = match String.split_on_char ':' s with
  | [c; _l; bufs] -> (c = "1", List.map bytes_of_hex (split '+' bufs))
  | _ -> failwith "op"

let show_res = function SOk -> "ok" | SErr -> "err" | SNmErr -> "nm"

let () = iter_lines (fun line ->
  match split_ws line with
  | "tx" :: f :: rest ->
    let ops = match rest with [] -> [] | o :: _ -> List.map parse_op (split ';' o) in
    let (wire, rs) = run_tbl VFixed (parse_faults f) ops in
    print_endline (hex_of_bytes wire ^ " " ^ String.concat "," (List.map show_res rs))
  | "fault" :: _ -> print_endline "clean"
  | [] -> ()
  | _ -> print_endline "bad-case")
