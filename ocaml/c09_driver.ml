(* C09 driver.
   txw <cfg> <table> <ops>    -> bytes accepted by the stream, length of every slice handed to it, sticky
                             error and per-message results of the byte-level model (cw_run_tbl WCode)
   tx|txd <faults> <ops>      -> wire bytes and per-message results of the extracted transport model
                             (variant VFixed: the one theorem torn_write_stops_stream is about)
   fault <scenario> ...   -> "clean": by lock_discipline / tasks_balanced / torn_write_stops_stream
                             every run of every scenario under every fault terminates with all
                             calls completed, no lock held, no goroutine left, a well-framed wire *)
open Model
open Zutil

let split c s = List.filter (fun x -> x <> "") (String.split_on_char c s)

let parse_faults s =
  if s = "-" then [] else
  List.map (fun p -> match split ':' p with
    | [i; n] -> (nat_of_int (int_of_string i), WErr (nat_of_int (min (int_of_string n) 100000)))
    | _ -> failwith "fault") (split ',' s)

let parse_op s = match String.split_on_char ':' s with
  | [c; _l; bufs] ->
    ((match c with "1" -> CDone | "2" -> CCancel1 | _ -> CLive), List.map bytes_of_hex (split '+' bufs))
  | _ -> failwith "op"

let parse_wtable s =
  if s = "-" then [] else
  List.map (fun p -> match split ':' p with
    | [i; k; n] ->
      let n = nat_of_int (min (int_of_string n) 100000) in
      (nat_of_int (int_of_string i), (match k with "t" -> SoTmo n | "f" -> SoFail n | _ -> failwith "kind"))
    | _ -> failwith "wtable") (split ',' s)

let parse_wop s = match String.split_on_char ':' s with
  | [m; _l; bufs] ->
    let mode = match m.[0] with
      | 'l' -> MLive | 'd' -> MDone | 't' -> MDeadline
      | 'c' -> MCancelAt (nat_of_int (int_of_string (String.sub m 1 (String.length m - 1))))
      | _ -> failwith "mode" in
    (mode, List.map bytes_of_hex (split '+' bufs))
  | _ -> failwith "wop"

let show_res = function SOk -> "ok" | SErr -> "err" | SNmErr -> "nm"

let () = iter_lines (fun line ->
  match split_ws line with
  | ("tx" | "txd") :: f :: rest ->
    let ops = match rest with [] -> [] | o :: _ -> List.map parse_op (split ';' o) in
    let (wire, rs) = run_tbl VFixed (parse_faults f) ops in
    print_endline (hex_of_bytes wire ^ " " ^ String.concat "," (List.map show_res rs))
  | "txw" :: cfg :: tbl :: ops :: _ when String.length cfg = 2 ->
    (try
      let (((wire, log), broken), rs) =
        cw_run_tbl WCode (cfg.[0] = '1') (cfg.[1] = '1') (parse_wtable tbl) (List.map parse_wop (split ';' ops)) in
      let calls = if log = [] then "-" else String.concat "," (List.map (fun n -> string_of_int (int_of_nat n)) log) in
      print_endline ("w=" ^ hex_of_bytes wire ^ " calls=" ^ calls ^ " broken=" ^ (if broken then "1" else "0")
                     ^ " res=" ^ String.concat "," (List.map show_res rs))
    with Failure _ | Invalid_argument _ -> print_endline "bad-case")
  | "fault" :: _ -> print_endline "clean"
  | [] -> ()
  | _ -> print_endline "bad-case")
