(* Driver around the extracted model coq/Pogs/PogsM.v.  One case per line:
     def <name> <schema>                        -> def <schema_ok>
     ins <name> <id> <dbytes> <pcount> <gval>   -> ok <strct> | err | panic
     ext <name> <id> <strct>                    -> ok <gval> | err
     gen <name> <id> <strct>                    -> ok <gval> | err | panic
     insp <name> <id> <strct> <gval>            -> ok <strct> | err | panic   (insert over the given prior contents)
     rt2 <name> <id> <gval> <gval>              -> ok <gval> | err1 | err     (two inserts into one struct, extract)
     rt  <name> <id> <gval>                     -> ok <gval> | err     (insert into a struct of the schema's size, extract)
   Argument "prefix" selects the model of extractField before the Text/Data default fix.
   Token grammar: see docs/C19.md. *)
open Model
open Zutil

let fixed = not (Array.length Sys.argv > 1 && Sys.argv.(1) = "prefix")
let fuel = nat_of_int 64

(* ---------------------------------------------------------------- token stream *)
let toks : string list ref = ref []
let next () = match !toks with t :: r -> toks := r; t | [] -> failwith "eof"
let next_int () = int_of_string (next ())
let next_z () = z_of_int (next_int ())
let rec times n f = if n <= 0 then [] else let x = f () in x :: times (n - 1) f

let bits_of_hexw w h = bits_of_z (nat_of_int w) (if h = "-" then Z0 else z_of_hex h)
let hex_of_bits bs = hex_of_z (z_of_bits bs)

let rec parse_ptr () : ptrval =
  match next () with
  | "N" -> PNull
  | "B" -> PBytes (bytes_of_hex (next ()))
  | "b" -> let n = next_int () in
    let bytes = bytes_of_hex (next ()) in
    let arr = Array.of_list (List.map int_of_z bytes) in
    PBits (List.init n (fun i -> (arr.(i / 8) lsr (i mod 8)) land 1 = 1))
  | "P" -> let w = next_int () in let n = next_int () in
    PPrims (nat_of_int w, times n (fun () -> bits_of_hexw w (next ())))
  | "L" -> let n = next_int () in PPtrs (times n parse_ptr)
  | "C" -> let n = next_int () in PStructs (times n parse_struct)
  | "S" -> PStruct (parse_struct ())
  | "K" -> PCap (next_z ())
  | t -> failwith ("ptr " ^ t)
and parse_struct () : strct =
  let data = bytes_of_hex (next ()) in
  let pc = next_int () in
  let ps = times pc parse_ptr in
  mk_struct data ps

let rec parse_gval () : gval =
  match next () with
  | "_" -> GNone
  | "t" -> GBool true
  | "f" -> GBool false
  | "yn" -> GBytes None
  | "y" -> GBytes (Some (bytes_of_hex (next ())))
  | "ln" -> GList None
  | "l" -> let n = next_int () in GList (Some (times n parse_gval))
  | "sn" -> GStruct None
  | "s" -> let w = next () in let n = next_int () in
    let which = if w = "-" then [] else bits_of_hexw 16 w in
    GStruct (Some (which, times n parse_gval))
  | "p" -> GPtr (parse_ptr ())
  | t when String.length t > 1 && t.[0] = 'i' ->
    let w = int_of_string (String.sub t 1 (String.length t - 1)) in
    GBits (bits_of_hexw w (next ()))
  | t -> failwith ("gval " ^ t)

let rec parse_type () : ftype =
  match next () with
  | "v" -> TVoid | "b" -> TBool
  | "T0" -> TText false | "T1" -> TText true | "D" -> TData
  | "L" -> TList (parse_type ())
  | "S0" -> TStruct (false, next_z ()) | "S1" -> TStruct (true, next_z ())
  | "I" -> TIface | "A" -> TAnyPtr
  | t when t.[0] = 'i' -> TInt (nat_of_int (int_of_string (String.sub t 1 (String.length t - 1))))
  | t -> failwith ("type " ^ t)

let type_width = function TBool -> 1 | TInt w -> int_of_nat w | _ -> 0

let parse_dflt (t : ftype) : dflt =
  match next () with
  | "-" -> DAbsent
  | "z" -> DBits (bits_of_hexw (type_width t) (next ()))
  | "p" -> DPtr (parse_ptr ())
  | "!" -> DBad
  | x -> failwith ("dflt " ^ x)

let parse_dv () = match next () with "-" -> None | h -> Some (bits_of_hexw 16 h)

let parse_field () : field =
  match next () with
  | "s" -> let p = next () = "1" in let dv = parse_dv () in let off = next_z () in
    let t = parse_type () in let d = parse_dflt t in FSlot (p, dv, off, t, d)
  | "g" -> let p = next () = "1" in let dv = parse_dv () in let gid = next_z () in FGroup (p, dv, gid)
  | t -> failwith ("field " ^ t)

let parse_node () : z * snode =
  let id = next_z () in
  let dw = next_z () in let pc = next_z () in
  let disc = (match next () with "-" -> None | x -> Some (z_of_int (int_of_string x))) in
  let wk = (match next () with "n" -> WNone | "w" -> WField | "x" -> WFixed (bits_of_hexw 16 (next ())) | t -> failwith ("wk " ^ t)) in
  let nf = next_int () in
  let fs = times nf parse_field in
  (id, { n_dwords = dw; n_pcount = pc; n_disc = disc; n_which = wk; n_fields = fs })

(* ---------------------------------------------------------------- printing *)
let buf = Buffer.create 4096
let add s = Buffer.add_char buf ' '; Buffer.add_string buf s

let rec print_ptr (p : ptrval) =
  match p with
  | PNull -> add "N"
  | PBytes bs -> add "B"; add (hex_of_bytes bs)
  | PBits bs ->
    let n = List.length bs in
    let arr = Array.make ((n + 7) / 8) 0 in
    List.iteri (fun i b -> if b then arr.(i / 8) <- arr.(i / 8) lor (1 lsl (i mod 8))) bs;
    add "b"; add (string_of_int n);
    add (if n = 0 then "-" else String.concat "" (List.map (Printf.sprintf "%02x") (Array.to_list arr)))
  | PPrims (w, es) -> add "P"; add (string_of_int (int_of_nat w)); add (string_of_int (List.length es));
    List.iter (fun e -> add (hex_of_bits e)) es
  | PPtrs ps -> add "L"; add (string_of_int (List.length ps)); List.iter print_ptr ps
  | PStructs ss -> add "C"; add (string_of_int (List.length ss)); List.iter print_struct ss
  | PStruct s -> add "S"; print_struct s
  | PCap id -> add "K"; add (string_of_int (int_of_z id))
and print_struct (s : strct) =
  add (hex_of_bytes (struct_bytes s));
  let ps = struct_ptrs s in
  add (string_of_int (List.length ps)); List.iter print_ptr ps

let rec print_gval (v : gval) =
  match v with
  | GNone -> add "_"
  | GBool b -> add (if b then "t" else "f")
  | GBits bs -> add ("i" ^ string_of_int (List.length bs)); add (hex_of_bits bs)
  | GBytes None | GBytes (Some []) -> add "y"; add "-"
  | GBytes (Some bs) -> add "y"; add (hex_of_bytes bs)
  | GList None -> add "ln"
  | GList (Some vs) -> add "l"; add (string_of_int (List.length vs)); List.iter print_gval vs
  | GStruct None -> add "sn"
  | GStruct (Some (w, vs)) -> add "s"; add (match w with [] -> "-" | _ -> hex_of_bits w);
    add (string_of_int (List.length vs)); List.iter print_gval vs
  | GPtr p -> add "p"; print_ptr p

let show (pr : 'a -> unit) (r : 'a res) : string =
  match r with
  | Ok a -> Buffer.clear buf; Buffer.add_string buf "ok"; pr a; Buffer.contents buf
  | Err -> "err" | Panic -> "panic" | Unmodelled -> "unmodelled" | OutOfFuel -> "fuel"

(* ---------------------------------------------------------------- main *)
let schemas : (string, schema) Hashtbl.t = Hashtbl.create 16
let get name = try Hashtbl.find schemas name with Not_found -> failwith ("no schema " ^ name)

let () = iter_lines (fun line ->
  toks := split_ws line;
  let out =
    try
      match next () with
      | "def" ->
        let name = next () in
        let n = next_int () in
        let sch = times n parse_node in
        Hashtbl.replace schemas name sch;
        "def " ^ (if schema_ok (nat_of_int 8) sch then "true" else "false")
      | "ins" ->
        let sch = get (next ()) in let id = next_z () in
        let db = next_z () in let pc = next_z () in
        let v = parse_gval () in
        let s0 = mk_struct (List.init (int_of_z db) (fun _ -> Z0)) (List.init (int_of_z pc) (fun _ -> PNull)) in
        show print_struct (insert_struct fuel sch id s0 v)
      | ("ext" | "extf") as k ->
        let sch = get (next ()) in let id = next_z () in
        if k = "extf" then ignore (next ());
        let s = parse_struct () in
        show print_gval (extract_struct fixed fuel sch id s)
      | "ext2" ->
        (* two extractions into one destination: the second result is a function of the second message only *)
        let sch = get (next ()) in let id = next_z () in
        let sa = parse_struct () in
        let sb = parse_struct () in
        (match extract_struct fixed fuel sch id sa with
         | Ok _ -> show print_gval (extract_struct fixed fuel sch id sb)
         | Err -> "err1" | Panic -> "panic1" | Unmodelled -> "unmodelled" | OutOfFuel -> "fuel")
      | "gen" ->
        let sch = get (next ()) in let id = next_z () in
        let s = parse_struct () in
        show print_gval (gen_struct fuel sch id s)
      | "hostile" -> "hostile"   (* raw hostile bytes: observed on the implementation only (never panics / hangs / over-allocates) *)
      | "insp" ->
        let sch = get (next ()) in let id = next_z () in
        let s0 = parse_struct () in
        let v = parse_gval () in
        show print_struct (insert_struct fuel sch id s0 v)
      | "rt2" ->
        let sch = get (next ()) in let id = next_z () in
        let v1 = parse_gval () in
        let v2 = parse_gval () in
        (match List.assoc_opt id sch with
         | None -> "err1"
         | Some n ->
           let db = 8 * int_of_z n.n_dwords and pc = int_of_z n.n_pcount in
           let s0 = mk_struct (List.init db (fun _ -> Z0)) (List.init pc (fun _ -> PNull)) in
           (match insert_struct fuel sch id s0 v1 with
            | Ok s1 ->
              (match insert_struct fuel sch id s1 v2 with
               | Ok s2 -> show print_gval (extract_struct fixed fuel sch id s2)
               | Err -> "err" | Panic -> "panic" | Unmodelled -> "unmodelled" | OutOfFuel -> "fuel")
            | Err -> "err1" | Panic -> "panic1" | Unmodelled -> "unmodelled" | OutOfFuel -> "fuel"))
      | "rt" ->
        let sch = get (next ()) in let id = next_z () in
        let v = parse_gval () in
        (match List.assoc_opt id (List.map (fun (i, n) -> (i, n)) sch) with
         | None -> "err"
         | Some n ->
           let db = 8 * int_of_z n.n_dwords and pc = int_of_z n.n_pcount in
           let s0 = mk_struct (List.init db (fun _ -> Z0)) (List.init pc (fun _ -> PNull)) in
           (match insert_struct fuel sch id s0 v with
            | Ok s -> show print_gval (extract_struct fixed fuel sch id s)
            | Err -> "err" | Panic -> "panic" | Unmodelled -> "unmodelled" | OutOfFuel -> "fuel"))
      | _ -> "bad-case"
    with Failure m -> "bad-case " ^ m | Not_found -> "bad-case notfound" | Invalid_argument m -> "bad-case " ^ m
  in
  print_endline out)
