(* C14 driver: one case per line -> one observation per line (see harness/cmd/c14/main.go).
     marshal <segs> | unmarshal <bytes> | encode <packed> <segs>
     decode <packed> <max> <chunks> <ops> <bytes> | hdrsize <n> | segsize <bytes> <i> | totalsize <bytes>
   bytes: parts joined by '+', a part is hex, zN (N zero bytes) or '-' (empty);
   segs: 'none' or byte strings joined by ','. *)
open Model
open Zutil

(* set to false to run the model of Encoder.Encode as found (no alignment check) *)
let aligned = ref true
(* set to false to run the model of Decoder.Decode as found (513 segments accepted) *)
let seglimit_fixed = ref true

let rec zeros_l n acc = if n <= 0 then acc else zeros_l (n - 1) (Z0 :: acc)

let part (s : string) : z list =
  if s = "-" || s = "" then []
  else if s.[0] = 'z' then zeros_l (int_of_string (String.sub s 1 (String.length s - 1))) []
  else bytes_of_hex s

let bytes_of_expr (s : string) : z list =
  List.concat (List.map part (String.split_on_char '+' s))

let segs_of_expr (s : string) : z list list =
  if s = "none" then [] else List.map bytes_of_expr (String.split_on_char ',' s)

(* rendering of byte strings: hex when short, length and FNV-1a 64 otherwise *)
let render (l : z list) : string =
  let n = List.length l in
  if n <= 96 then hex_of_bytes l
  else begin
    let h = ref 0xcbf29ce484222325L in
    List.iter (fun b -> h := Int64.mul (Int64.logxor !h (Int64.of_int (int_of_z b))) 0x100000001b3L) l;
    Printf.sprintf "#%d:%016Lx" n !h
  end

let render_segs segs = String.concat "," (List.map render segs)

let cls = function
  | EEof -> "eof" | EShortHeader -> "short-header" | EShortData -> "short-data"
  | ESegOverflow -> "seg-overflow" | ETooManySegs -> "too-many-segments" | ETooLarge -> "too-large"
  | EConfig -> "config" | EReadHeader -> "unexpected-eof/hdr" | EReadSegs -> "unexpected-eof/segs"
  | ENoSegs -> "no-segments" | EHdrOverflow -> "hdr-overflow" | ESegTooLarge -> "seg-too-large"
  | EUnaligned -> "unaligned" | ESizeOverflow -> "size-overflow" | EUnpack -> "unpack"

let zstr z = match z with
  | Z0 -> "0"
  | _ -> let h = hex_of_z z in if String.length h <= 15 then string_of_int (int_of_z z) else "0x" ^ h
let z_of_dec (s : string) : z =
  let acc = ref Z0 in
  String.iter (fun c -> acc := Model.Z.add (Model.Z.mul !acc (z_of_int 10)) (z_of_int (Char.code c - 48))) s;
  !acc
let z_of_num (s : string) : z =
  if String.length s > 2 && s.[0] = '0' && s.[1] = 'x' then z_of_hex (String.sub s 2 (String.length s - 2))
  else z_of_dec s

let zle a b = match Model.Z.compare a b with Gt -> false | _ -> true

(* cut a stream into chunks of the given sizes (cycled) *)
let chunk_stream (sizes : int list) (l : z list) : z list list =
  let arr = Array.of_list sizes in
  let rec take n l acc = if n = 0 then (List.rev acc, l) else match l with [] -> (List.rev acc, []) | x :: r -> take (n - 1) r (x :: acc) in
  let rec go i l acc = match l with
    | [] -> List.rev acc
    | _ -> let (c, r) = take arr.(i mod Array.length arr) l [] in go (i + 1) r (c :: acc) in
  go 0 l []

let parse_ops (s : string) : dop list =
  List.map (fun t ->
    if t = "d" then OpDecode else if t = "r" then OpReuse
    else if t.[0] = 'm' then OpSetMax (z_of_num (String.sub t 1 (String.length t - 1)))
    else failwith "op") (String.split_on_char ',' s)

let show_decode st (out, log) maxv =
  let a = if zle (alloc_bytes log) (eff_max maxv) then "A1" else "A0" in
  (* F<h><b>: a new header buffer / (in reuse mode) a new data buffer of non-zero size was allocated *)
  let pos = function Z0 -> false | _ -> true in
  let fh = List.exists (function AHdr n -> pos n | _ -> false) log in
  let fb = st.d_reuse && List.exists (function ABuf n -> pos n | _ -> false) log in
  let tail = Printf.sprintf ":h%s:b%s:%s:F%d%d" (zstr st.d_hdrcap) (zstr st.d_bufcap) a
      (if fh then 1 else 0) (if fb then 1 else 0) in
  match out with
  | DMsg segs -> Printf.sprintf "msg:%d:%s:c1%s" (List.length segs) (render_segs segs) tail
  | DEof -> "eof" ^ tail
  | DErr e -> "err:" ^ cls e ^ tail
  | DPanic -> "panic"

let run_decode packed maxv chunks ops stream =
  let outs = ref [] in
  if packed then begin
    (* NewPackedDecoder: the Decoder over the C13 model of packed.Reader.Read; bufio's answers
       (fast path / short read) are oracles, fixed to false here: by the C14 packed theorems the
       outcome does not depend on them up to the first outcome that is not a message *)
    let st = ref (d_init (p_init (fun _ -> (false, false)) stream) maxv) in
    let dead = ref false in
    List.iter (fun o ->
      if not !dead then begin
      let (st', r) = pdstep !seglimit_fixed !st o in
      st := st';
      match r with
      | Some x ->
        outs := show_decode st' x st'.d_max :: !outs;
        (match x with (DMsg _, _) -> () | _ -> dead := true)
      | None -> () end) ops
  end else begin
    let st = ref (d_init { r_chunks = chunk_stream chunks stream; r_final = EOF } maxv) in
    List.iter (fun o ->
      let (st', r) = dstep_gen !seglimit_fixed !st o in
      st := st';
      match r with
      | Some x -> outs := show_decode st' x st'.d_max :: !outs
      | None -> ()) ops
  end;
  String.concat " " (List.rev !outs)

(* decodex: the plain Decoder over a reader with the given behaviour: t = the final error comes
   together with the last bytes, e = the final error is not io.EOF; chunk size 0 = a (0, nil) read *)
let run_decodex beh maxv chunks ops stream =
  let tog = String.contains beh 't' and e = String.contains beh 'e' in
  let st = ref (d_init { x_chunks = chunk_stream chunks stream; x_final = (if e then UnexpectedEOF else EOF); x_tog = tog } maxv) in
  let outs = ref [] in
  List.iter (fun o ->
    let (st', r) = xdstep !seglimit_fixed !st o in
    st := st';
    match r with
    | Some x -> outs := show_decode st' x st'.d_max :: !outs
    | None -> ()) ops;
  String.concat " " (List.rev !outs)

let show_bytes = function Ok b -> "ok " ^ render b | Err e -> "err " ^ cls e | Panic -> "panic"

let () =
  Array.iter (fun a -> if a = "-prefix" then aligned := false; if a = "-prefix513" then seglimit_fixed := false) Sys.argv;
  iter_lines (fun line ->
  (* a case too deep for the native stack (only seen with a broken implementation feeding the
     generator) must not hide the other cases *)
  try
  match split_ws line with
  | "marshal" :: _ :: s :: _ -> print_endline (show_bytes (marshal (segs_of_expr s)))
  | "marshalpacked" :: _ :: s :: _ -> print_endline (show_bytes (marshal_packed (segs_of_expr s)))
  | "unmarshalpacked" :: b :: _ ->
    print_endline (match unmarshal_packed (bytes_of_expr b) with
      | Ok segs -> Printf.sprintf "ok %d %s" (List.length segs) (render_segs segs)
      | Err e -> "err " ^ cls e
      | Panic -> "panic")
  | "unmarshal" :: b :: _ ->
    let data = bytes_of_expr b in
    let a = if zle (unmarshal_alloc data) (Model.Z.mul (z_of_int 6) (len data)) then "A1" else "A0" in
    print_endline (match unmarshal data with
      | Ok segs -> Printf.sprintf "ok %d %s c1 %s" (List.length segs) (render_segs segs) a
      | Err e -> "err " ^ cls e ^ " " ^ a
      | Panic -> "panic")
  | "encode" :: p :: _ :: s :: _ ->
    let segs = segs_of_expr s in
    print_endline (show_bytes (if p = "1" then encode_packed !aligned segs else encode !aligned segs))
  | "decode" :: p :: m :: c :: ops :: b :: _ ->
    print_endline (run_decode (p = "1") (z_of_num m) (List.map int_of_string (String.split_on_char ',' c))
                     (parse_ops ops) (bytes_of_expr b))
  | "decodex" :: beh :: m :: c :: ops :: b :: _ ->
    print_endline (run_decodex beh (z_of_num m) (List.map int_of_string (String.split_on_char ',' c))
                     (parse_ops ops) (bytes_of_expr b))
  | "hdrsize" :: n :: _ -> print_endline (zstr (stream_header_size (z_of_num n)))
  | "segsize" :: b :: i :: _ ->
    print_endline (match segment_size (bytes_of_expr b) (z_of_num i) with
      | Ok s -> "ok " ^ zstr s | Err e -> "err " ^ cls e | Panic -> "panic")
  | "totalsize" :: b :: _ ->
    print_endline (match total_size (bytes_of_expr b) with
      | Ok s -> "ok " ^ zstr s | Err e -> "err " ^ cls e | Panic -> "panic")
  | [] -> ()
  | _ -> print_endline "bad-case"
  with Stack_overflow -> print_endline "model-stack-overflow")
