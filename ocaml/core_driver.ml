(* case:  ARENA T D seg,seg,... op;op;...   ->  obs;obs;...
   argv: optional "prefix" = the code as found (no repairs), default = repaired code *)
open Model
open Zutil

let fixed = not (Array.length Sys.argv > 1 && Sys.argv.(1) = "prefix")
let zs s = z_of_hex (Printf.sprintf "%x" (int_of_string s))
(* decimal strings up to 2^64 *)
let z_of_dec (s : string) : z =
  (* via hex conversion of arbitrary precision: repeated multiply by 10 on z *)
  let ten = z_of_int 10 in
  let acc = ref Z0 in
  String.iter (fun c -> acc := Z.add (Z.mul !acc ten) (z_of_int (Char.code c - 48))) s; !acc
let rec dec_of_z (x : z) : string =
  match x with
  | Z0 -> "0"
  | Zneg p -> "-" ^ dec_of_z (Zpos p)
  | Zpos _ ->
    let ten = z_of_int 10 in
    let rec go x acc = match x with Z0 -> acc | _ ->
      let q = Z.div x ten and r = Z.modulo x ten in go q (string_of_int (int_of_z r) ^ acc) in
    go x ""

let parse_op (s : string) : op =
  match String.split_on_char ':' s with
  | ["root"] -> ORoot
  | ["sptr"; h; i] -> OSPtr (z_of_dec h, z_of_dec i)
  | ["hasptr"; h; i] -> OHasPtr (z_of_dec h, z_of_dec i)
  | ["uint"; h; o; n] -> OUint (z_of_dec h, z_of_dec o, z_of_dec n)
  | ["bit"; h; n] -> OBit (z_of_dec h, z_of_dec n)
  | ["lstruct"; h; i] -> OLStruct (z_of_dec h, z_of_dec i)
  | ["plat"; h; i] -> OPLAt (z_of_dec h, z_of_dec i)
  | ["uintat"; h; i; n] -> OUintAt (z_of_dec h, z_of_dec i, z_of_dec n)
  | ["bitat"; h; i] -> OBitAt (z_of_dec h, z_of_dec i)
  | ["text"; h] -> OText (z_of_dec h)
  | ["data"; h] -> OData (z_of_dec h)
  | ["info"; h] -> OInfo (z_of_dec h)
  | ["rlimit"] -> ORLimit
  | ["reset"] -> OReset true        (* Message.Reset: re-arms Message.initReadLimit's value *)
  | ["setlimit"; n] -> OResetLimit (z_of_dec n)     (* Message.ResetReadLimit *)
  | ["unread"; n] -> OUnread (z_of_dec n)           (* Message.Unread *)
  | ["walk"; h; d; p; f] -> OWalk (z_of_dec h, z_of_dec d, z_of_dec p, z_of_dec f)
  | _ -> failwith ("bad op " ^ s)

let b2i b = if b then 1 else 0
let ptr_str (p : ptr) : string =
  if not p.p_valid then "null" else
  let k = match p.p_kind with KStruct -> 0 | KList -> 1 | KIface -> 2 in
  Printf.sprintf "P(%s,%s,%s,%s,%s,%s,%d,%d,%d,%d)" (dec_of_z p.p_seg) (dec_of_z p.p_off) (dec_of_z p.p_len)
    (dec_of_z p.p_size.dataSize) (dec_of_z p.p_size.pointerCount) (dec_of_z p.p_depth) k
    (b2i p.p_comp) (b2i p.p_bit) (b2i p.p_member)

let rec tree_str (b : Buffer.t) (t : tree) : unit =
  let list_of ts = List.iteri (fun i t -> if i > 0 then Buffer.add_char b ','; tree_str b t) ts in
  match t with
  | TNull -> Buffer.add_char b '0'
  | TErr -> Buffer.add_char b 'E'
  | TPanic -> Buffer.add_char b '!'
  | TFuel -> Buffer.add_char b 'F'
  | TCap i -> Buffer.add_string b ("C" ^ dec_of_z i)
  | TStruct (d, ps) -> Buffer.add_string b ("S(" ^ hex_of_bytes d ^ "|"); list_of ps; Buffer.add_char b ')'
  | TPtrs (n, es) -> Buffer.add_string b ("L" ^ dec_of_z n ^ "["); list_of es; Buffer.add_char b ']'
  | TComp (n, sz, es) ->
    Buffer.add_string b (Printf.sprintf "M%s:%s:%s[" (dec_of_z n) (dec_of_z sz.dataSize) (dec_of_z sz.pointerCount));
    list_of es; Buffer.add_char b ']'
  | TPrim (w, n, vs) ->
    Buffer.add_string b (Printf.sprintf "V%s:%s[" (dec_of_z w) (dec_of_z n));
    List.iteri (fun i v -> if i > 0 then Buffer.add_char b ','; Buffer.add_string b (dec_of_z v)) vs;
    Buffer.add_char b ']'
  | TBits (n, vs) ->
    Buffer.add_string b (Printf.sprintf "B%s[" (dec_of_z n));
    List.iter (fun v -> Buffer.add_char b (if v then '1' else '0')) vs;
    Buffer.add_char b ']'

let oval_str (v : oval) : string =
  match v with
  | VPtr (Ok p) -> ptr_str p
  | VNum (Ok n) -> "N" ^ dec_of_z n
  | VBool (Ok x) -> if x then "B1" else "B0"
  | VBytes (Ok None) -> "none"
  | VBytes (Ok (Some l)) -> "X" ^ hex_of_bytes l
  | VPtr Err | VNum Err | VBool Err | VBytes Err -> "err"
  | VPtr Panic | VNum Panic | VBool Panic | VBytes Panic -> "panic"
  | VTree (t, rl) -> let b = Buffer.create 256 in tree_str b t; Buffer.contents b ^ "@" ^ dec_of_z rl

let () = iter_lines (fun line ->
  match split_ws line with
  (* concurrent readers: by theorem traversal_bound_conc the accounting invariants hold for
     every interleaving, so the expected verdict is "ok" *)
  | "conc" :: _ -> print_endline "ok"
  | "exhaust" :: _ -> print_endline "ok"
  (* reused messages: Reset re-arms the configured limit (Message.initReadLimit); the bound per
     incarnation is traversal_bound's, the re-arming itself is checked by the run only *)
  | "reuse" :: _ -> print_endline "ok"
  | _arena :: t :: d :: rest ->
    let segs, ops = match rest with
      | [s; o] -> s, o
      | [s] -> s, ""
      | [] -> "", ""
      | _ -> failwith "bad case" in
    let seg_of s =
      if String.length s > 0 && s.[0] = 'Z' then begin
        match String.split_on_char ':' (String.sub s 1 (String.length s - 1)) with
        | [n; h] -> let pre = bytes_of_hex (if h = "" then "-" else h) in
                    let n = int_of_string n in
                    pre @ List.init (max 0 (n - List.length pre)) (fun _ -> Z0)
        | _ -> failwith "bad Z segment"
      end else bytes_of_hex s in
    let m = if segs = "_" || segs = "" then [] else List.map seg_of (String.split_on_char ',' segs) in
    let cfg = { cfg_T = z_of_dec t; cfg_D = z_of_dec d; cfg_strict = fixed; cfg_root = fixed } in
    let fx = { fx_depth = fixed; fx_upgrade = fixed; fx_bit = fixed } in
    let ops = if ops = "" then [] else List.map parse_op (String.split_on_char ';' ops) in
    print_endline (String.concat ";" (List.map oval_str (run_ops cfg fx m ops)))
  | _ -> print_endline "bad-case")
