(* one case per line:   <kind> <fixed 0|1> <progs> <schedule>
     progs    = thread programs separated by ';', ops separated by ',', op = letter:arg:arg
                n:dst  p:dst:p  a:src:dst  r:src  w:src:wdst  u:w:dst  c:src:recv[:abn]  f:p:src  v:src  s:a:b  t:src (State)
     schedule = comma separated thread ids ("-" = empty): the step sequence the harness drove
                the implementation through
   output:  <status> E:<events> R:<results per thread> H:<refs.calls.done.shut per hook> M:<enabled mask per step + final>
   status = done | stuck | cut | bad@k (thread scheduled at position k has no enabled step in the model)
   kind "mis" = the generator deliberately broke the caller contract (Release of the client a running
   Fulfill was given): the model sets its misuse flag there; for every other kind a set flag is reported. *)
open Model
open Zutil

let n = nat_of_int
let parse_op (s : string) : op =
  match String.split_on_char ':' s with
  | ["n"; d] -> ONew (n (int_of_string d))
  | ["p"; d; p] -> ONewPromise (n (int_of_string d), n (int_of_string p))
  | ["a"; a; d] -> OAddRef (n (int_of_string a), n (int_of_string d))
  | ["r"; a] -> ORelease (n (int_of_string a))
  | ["w"; a; d] -> OWeakRef (n (int_of_string a), n (int_of_string d))
  | ["u"; w; d] -> OWeakAdd (n (int_of_string w), n (int_of_string d))
  | ["c"; a; r] -> OCall (n (int_of_string a), r = "1", false)
  | ["c"; a; r; abn] -> OCall (n (int_of_string a), r = "1", abn <> "0")
  | ["f"; p; a] -> OFulfill (n (int_of_string p), n (int_of_string a))
  | ["v"; a] -> OIsValid (n (int_of_string a))
  | ["s"; a; b] -> OIsSame (n (int_of_string a), n (int_of_string b))
  | ["t"; a] -> OState (n (int_of_string a))
  | _ -> failwith ("bad op " ^ s)

let parse_prog s = if s = "-" then [] else List.map parse_op (String.split_on_char ',' s)
let parse_progs s = List.map parse_prog (String.split_on_char ';' s)
let parse_sched s = if s = "-" then [] else List.map int_of_string (String.split_on_char ',' s)

let show_res = function
  | ROk -> "k" | RNil -> "n" | RDead -> "d" | RErr -> "e" | RPanic -> "P" | RSent -> "s"
  | RBool true -> "t" | RBool false -> "f"
let show_ev = function
  | EvSend h -> "S" ^ string_of_int (int_of_nat h)
  | EvRecv h -> "V" ^ string_of_int (int_of_nat h)
  | EvShutdown h -> "X" ^ string_of_int (int_of_nat h)

let mask stepf g =
  let k = List.length g.threads in
  let m = ref 0 in
  for t = 0 to k - 1 do (match stepf g (n t) with Some _ -> m := !m lor (1 lsl t) | None -> ()) done;
  !m

let show kind fixed g status masks =
  let ev = String.concat "," (List.rev_map show_ev g.events) in
  let rs = String.concat ";" (List.map (fun th -> String.concat "" (List.rev_map show_res th.t_res)) g.threads) in
  let hs = String.concat "," (List.map (fun h ->
      Printf.sprintf "%d.%d.%d.%d" (int_of_z h.h_refs) (int_of_z h.h_calls) (if h.h_done then 1 else 0) (int_of_z h.h_shut)) g.hooks) in
  Printf.sprintf "%s E:%s R:%s H:%s M:%s%s" status ev rs hs
    (String.concat "." (List.rev_map (Printf.sprintf "%x") masks))
    (if g.misuse && kind <> "mis" then " unexpected-misuse" else "")

let () = iter_lines (fun line ->
  match split_ws line with
  | kind :: fx :: progs :: sched :: _ ->
    (* model variant: 1 = repaired code, 0 = code as found, 2 = seeded "early unlock" mutation *)
    let fixed = (match fx with "0" -> step false | "2" -> step_early | _ -> step true) in
    let g0 = init (parse_progs progs) in
    let rec go g sched k masks =
      let m = mask fixed g in
      match sched with
      | [] ->
        let unf = List.exists unfinished g.threads in
        let status = if not unf then "done" else if m = 0 then "stuck" else "cut" in
        show kind fixed g status (m :: masks)
      | t :: r ->
        (match fixed g (n t) with
         | None -> show kind fixed g (Printf.sprintf "bad@%d" k) (m :: masks)
         | Some g' -> go g' r (k + 1) (m :: masks))
    in
    print_endline (go g0 (parse_sched sched) 0 [])
  | [] -> ()
  | _ -> print_endline "bad-case")
