(* one case per line -> one observation per line (see harness/cmd/c20)
   quote <s> <implout>       model literal for s; the implementation's output read back by the
                             reference reader parse_literal
   append <buf> <s> -        Append with a destination buffer
   schema <sexp>             schema description (remembered for the following lines)
   render <id> <rval> <floats> <implout>
                             model rendering of the stored value; the implementation's text
                             read back by the reference reader parse_text
   history <id> <rval> <floats> <n>
                             n Encodes of the value on one encoder *)
open Model
open Zutil

let show_parse = function
  | Some (s, rest) -> "lit:" ^ hex_of_bytes s ^ "+" ^ hex_of_bytes rest
  | None -> "unparsable"

(* ---------------------------------------------------------------- s-expressions: ( a , b , ( c ) ) *)
type sx = A of string | L of sx list

let parse_sx (s : string) : sx =
  let n = String.length s in
  let pos = ref 0 in
  let rec item () =
    if !pos < n && s.[!pos] = '(' then begin
      incr pos;
      let items = ref [] in
      if !pos < n && s.[!pos] = ')' then (incr pos; L [])
      else begin
        let continue = ref true in
        while !continue do
          items := item () :: !items;
          if !pos < n && s.[!pos] = ',' then incr pos
          else if !pos < n && s.[!pos] = ')' then (incr pos; continue := false)
          else failwith "sexp"
        done;
        L (List.rev !items)
      end
    end else begin
      let st = !pos in
      while !pos < n && s.[!pos] <> ',' && s.[!pos] <> ')' && s.[!pos] <> '(' do incr pos done;
      A (String.sub s st (!pos - st))
    end in
  let r = item () in
  if !pos <> n then failwith "sexp trailing";
  r

let zx = function A h -> z_of_hex h | _ -> failwith "number expected"
let bx = function A h -> bytes_of_hex h | _ -> failwith "bytes expected"

let rec ty_of = function
  | A "void" -> TVoid | A "bool" -> TBool | A "text" -> TText | A "data" -> TData
  | A "iface" -> TInterface | A "any" -> TAnyPointer
  | L [A "int"; b] -> TInt (zx b) | L [A "uint"; b] -> TUint (zx b) | L [A "float"; b] -> TFloat (zx b)
  | L [A "list"; c; e] -> TList (zx c, ty_of e)
  | L [A "enum"; i] -> TEnum (zx i) | L [A "struct"; i] -> TStruct (zx i)
  | _ -> failwith "type"

let rec rval_of = function
  | A "n" -> RNull | A "c" -> RCap
  | L (A "s" :: d :: ps) -> RStruct (bx d, List.map rval_of ps)
  | L (A "p" :: w :: xs) -> RPrim (zx w, List.map zx xs)
  | L [A "b"; d] -> RPrim (z_of_int 8, bx d)
  | L (A "l" :: ps) -> RPtrs (List.map rval_of ps)
  | L (A "C" :: es) -> RComp (List.map rval_of es)
  | _ -> failwith "rval"

let field_of = function
  | L [A "F"; name; ncost; disc; kind] ->
    let k = match kind with
      | L [A "slot"; off; t; dflt; dptr; tc; dvc; dpc] ->
        FSlot (zx off, ty_of t, zx dflt, rval_of dptr, zx tc, zx dvc, zx dpc)
      | L [A "group"; i] -> FGroup (zx i)
      | _ -> FOther in
    { f_name = bx name; f_ncost = zx ncost; f_disc = zx disc; f_kind = k }
  | _ -> failwith "field"

let node_of = function
  | L (A "S" :: i :: dc :: doff :: fc :: fields) -> (zx i, NStruct (zx dc, zx doff, zx fc, List.map field_of fields))
  | L (A "E" :: i :: ec :: names) ->
    (zx i, NEnum (zx ec, List.map (function L [n; c] -> (bx n, zx c) | _ -> failwith "enumerant") names))
  | L [A "O"; i] -> (zx i, NOther)
  | _ -> failwith "node"

let schema_of = function
  | L (A "schema" :: load :: nodes) -> { s_nodes = List.map node_of nodes; s_load = zx load }
  | _ -> failwith "schema"

(* ---------------------------------------------------------------- canonical form of a tval *)
let rec canon = function
  | TvVoid -> "v"
  | TvBool b -> if b then "T" else "F"
  | TvInt z -> "i" ^ hex_of_z z
  | TvFloat t -> "g" ^ hex_of_bytes t
  | TvStr s -> "s" ^ hex_of_bytes s
  | TvData s -> "d" ^ hex_of_bytes s
  | TvIdent n -> "e" ^ hex_of_bytes n
  | TvMarker m -> "m" ^ hex_of_bytes m
  | TvList l -> "[" ^ String.concat ";" (elems l) ^ "]"
  | TvStruct fs -> "(" ^ String.concat ";" (fields fs) ^ ")"
and elems = function TNil -> [] | TCons (v, r) -> canon v :: elems r
and fields = function FNil -> [] | FCons (n, v, r) -> (hex_of_bytes n ^ "=" ^ canon v) :: fields r

(* float oracle: table  <bits>:<pattern hex>=<token hex>,...  ; unknown patterns give "?" *)
let float_table (s : string) : (z -> z -> z list) =
  let tbl = Hashtbl.create 16 in
  if s <> "-" then
    List.iter (fun e ->
      match String.split_on_char '=' e with
      | [k; v] -> Hashtbl.replace tbl k (bytes_of_hex v)
      | _ -> failwith "float table") (String.split_on_char ',' s);
  fun bits pat ->
    let k = string_of_int (int_of_z bits) ^ ":" ^ hex_of_z pat in
    match Hashtbl.find_opt tbl k with Some t -> t | None -> [z_of_int 63]

let err_name = function
  | ENotFound -> "notfound" | ENotStruct -> "notstruct" | ENotEnum -> "notenum" | EBudget -> "budget"
  | EIllTyped -> "illtyped" | EInternal -> "internal"

let show_res = function
  | Ok out -> "ok " ^ hex_of_bytes out
  | Err e -> "err:" ^ err_name e
  | OutOfFuel -> "outoffuel"

let fuel = nat_of_int 200
let the_schema = ref { s_nodes = []; s_load = Z0 }
let cfg = ref cfg_fixed
let stale = ref false      (* -stale: UseRegistry keeps the cached nodes (refuted variant) *)
let schema_defs : (string, schema) Hashtbl.t = Hashtbl.create 8

let n_of_int n = match z_of_int n with Z0 -> N0 | Zpos p -> Npos p | Zneg _ -> N0
let show_cache = function None -> "unloaded" | Some b -> hex_of_z b

let () =
  Array.iter (fun a -> if a = "-prefix" then cfg := cfg_prefix; if a = "-stale" then stale := true) Sys.argv;
  iter_lines (fun line ->
  match split_ws line with
  | "quote" :: h :: implout :: _ ->
    let s = bytes_of_hex h in
    print_endline ("ok " ^ hex_of_bytes (quote s) ^ " " ^ show_parse (parse_literal (bytes_of_hex implout)))
  | "append" :: b :: h :: _ ->
    let s = bytes_of_hex h and buf = bytes_of_hex b in
    print_endline ("ok " ^ hex_of_bytes (append true buf s))
  | "schema" :: sx :: _ ->
    the_schema := schema_of (parse_sx sx);
    print_endline ("ok nodes=" ^ string_of_int (List.length !the_schema.s_nodes))
  | "render" :: id :: rv :: floats :: implout :: _ ->
    let v = rval_of (parse_sx rv) in
    let r = render (float_table floats) !cfg !the_schema fuel (z_of_hex id) v in
    let back = match parse_text (bytes_of_hex implout) with Some t -> canon t | None -> "unparsable" in
    print_endline (show_res r ^ " " ^ back)
  | "history" :: id :: rv :: floats :: n :: _ ->
    (* by theorem encode_history_independent every Encode after the first gives the result of
       the first and leaves the cache as the first did; the first two are computed, the cache
       after n is computed by iteration when n is small and taken from the theorem otherwise *)
    let v = rval_of (parse_sx rv) in
    let ff = float_table floats in
    let n = int_of_string n in
    let (r1, st1) = encode ff !cfg !the_schema fuel (z_of_hex id) v None in
    let (r2, st2) = encode ff !cfg !the_schema fuel (z_of_hex id) v st1 in
    let same = if r1 = r2 then n else 1 in
    let stn = if n <= 2000 || not !cfg.c_fixed then encode_again ff !cfg !the_schema fuel (z_of_hex id) v (n_of_int (n - 1)) st1 else st2 in
    let same = if !cfg.c_fixed then same else begin
      (* pre-fix model: count by simulation *)
      let st = ref st1 and k = ref 1 and go = ref true in
      while !go && !k < n do
        let (r, s') = encode ff !cfg !the_schema fuel (z_of_hex id) v !st in
        if r = r1 then (incr k; st := s') else go := false
      done; !k end in
    print_endline (show_res r1 ^ " same=" ^ string_of_int same ^ "/" ^ string_of_int n
                   ^ " budget1=" ^ show_cache st1 ^ " budgetN=" ^ show_cache stn)
  (* hostile messages: the property (C01/C02 for the renderer) is that the implementation returns,
     text or error, without panic or hang and within the output bound; theorem render_total says
     the model never panics or runs out of fuel *)
  (* standalone String() of a typed list: the model's shown_list for the element type *)
  | "liststr" :: kind :: rv :: implout :: _ ->
    let l = rval_of (parse_sx rv) in
    let ty = ty_of (parse_sx kind) in
    let r = (match shown_list (float_table "-") !cfg !the_schema fuel [] ty l None with
      | Ok (t, _) -> Ok (print t) | Err e -> Err e | OutOfFuel -> OutOfFuel) in
    let back = match parse_text (bytes_of_hex implout) with Some t -> canon t | None -> "unparsable" in
    print_endline (show_res r ^ " " ^ back)
  | "schemadef" :: key :: sx :: _ ->
    Hashtbl.replace schema_defs key (schema_of (parse_sx sx));
    print_endline ("ok " ^ key)
  (* histories with UseRegistry:  u:<version>  /  e:<typeid>:<value> ; for every e the model's
     encoder with the history and (theorem encode_history_independent_reg) a fresh one *)
  | "reghist" :: script :: _ ->
    let ff = float_table "-" in
    let st = ref (enc_init { s_nodes = []; s_load = Z0 }) in
    let obs = ref [] in
    let show = function Ok o -> "ok:" ^ hex_of_bytes o | Err _ -> "err" | OutOfFuel -> "outoffuel" in
    List.iter (fun op ->
      match String.split_on_char ':' op with
      | ["u"; k] -> st := use_registry (not !stale) (Hashtbl.find schema_defs k) !st
      | ["e"; id; rv] ->
        let v = rval_of (parse_sx rv) in
        let (r, st') = encode_e ff !cfg fuel (z_of_hex id) v !st in
        let (rf, _) = encode ff !cfg !st.es_reg fuel (z_of_hex id) v None in
        st := st';
        obs := ("used=" ^ show r ^ ",fresh=" ^ show rf) :: !obs
      | ["l"; id; rv] ->
        let v = rval_of (parse_sx rv) in
        let (r, st') = encode_list_e ff !cfg fuel (z_of_hex id) v !st in
        let (rf, _) = encode_list ff !cfg !st.es_reg fuel (z_of_hex id) v None in
        st := st';
        obs := ("used=" ^ show r ^ ",fresh=" ^ show rf) :: !obs
      | _ -> failwith "reghist op") (String.split_on_char ';' script);
    print_endline ("ok " ^ String.concat ";" (List.rev !obs))
  | "hostile" :: _ -> print_endline "safe"
  (* recursive types: model rendering, and the implementation's text read back against the
     values the model's walk shows *)
  | "recrender" :: id :: rv :: implout :: _ ->
    let v = rval_of (parse_sx rv) in
    let ff = float_table "-" in
    let r = render ff !cfg !the_schema fuel (z_of_hex id) v in
    let rb = (match r, shown ff !cfg !the_schema fuel (z_of_hex id) v with
      | Ok _, Ok t -> if implout <> "-" && parse_text (bytes_of_hex implout) = Some t then " rb=ok" else " rb=bad"
      | _ -> "") in
    print_endline (show_res r ^ rb)
  | [] -> ()
  | _ -> print_endline "bad-case")
