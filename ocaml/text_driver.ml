(* one case per line -> one observation per line (see harness/cmd/c20)
   quote <s> <implout>      : model literal for s; the implementation's output read back by the
                              reference reader parse_literal *)
open Model
open Zutil

let show_parse = function
  | Some (s, rest) -> "lit:" ^ hex_of_bytes s ^ "+" ^ hex_of_bytes rest
  | None -> "unparsable"

let () = iter_lines (fun line ->
  match split_ws line with
  | "quote" :: h :: implout :: _ ->
    let s = bytes_of_hex h in
    print_endline ("ok " ^ hex_of_bytes (quote s) ^ " " ^ show_parse (parse_literal (bytes_of_hex implout)))
  | "append" :: b :: h :: implout :: _ ->
    let s = bytes_of_hex h and buf = bytes_of_hex b in
    print_endline ("ok " ^ hex_of_bytes (append true buf s))
  | [] -> ()
  | _ -> print_endline "bad-case")
