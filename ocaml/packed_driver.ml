(* one case per line:  pack <hex> | unpack <hex> | stream <hex> ...   ->  one result per line *)
open Model
open Zutil

let show = function Some l -> "ok " ^ hex_of_bytes l | None -> "err"

let () = iter_lines (fun line ->
  match split_ws line with
  | "pack" :: h :: _ ->
    print_endline (match pack_bytes (bytes_of_hex h) with Some l -> "ok " ^ hex_of_bytes l | None -> "panic")
  | "unpack" :: h :: _ -> print_endline (show (unpack (bytes_of_hex h)))
  (* Unpack appends to dst: the appended part is unpack's output whatever dst's spare capacity held *)
  | "unpackdirty" :: h :: _ -> print_endline (show (unpack (bytes_of_hex h)))
  | "unpack_prefix" :: h :: _ -> print_endline (show (unpack_prefix (bytes_of_hex h)))
  | "spec" :: h :: _ -> print_endline (show (spec_unpack (bytes_of_hex h)))
  (* the streaming reader: by theorem C13_stream_agrees its verdict and output are those of
     [unpack] for every oracle, so the expected result is computed with [unpack] *)
  | ("stream" | "streamword") :: h :: _ -> print_endline (show (unpack (bytes_of_hex h)))
  | [] -> ()
  | _ -> print_endline "bad-case")
