(* one case per line:  pack <hex> | unpack <hex> | stream <hex> ...   ->  one result per line *)
open Model
open Zutil

let show = function Some l -> "ok " ^ hex_of_bytes l | None -> "err"

let () = iter_lines (fun line ->
  match split_ws line with
  | "pack" :: h :: _ ->
    print_endline (match pack_bytes (bytes_of_hex h) with Some l -> "ok " ^ hex_of_bytes l | None -> "panic")
  | "unpack" :: h :: _ -> print_endline (show (unpack (bytes_of_hex h)))
  (* Unpack appends to dst: the appended part is unpack's output whatever dst's spare capacity held *)
  | "unpackdirty" :: h :: _ -> print_endline (show (unpack (bytes_of_hex h)))
  | "unpack_prefix" :: h :: _ -> print_endline (show (unpack_prefix (bytes_of_hex h)))
  | "spec" :: h :: _ -> print_endline (show (spec_unpack (bytes_of_hex h)))
  (* the streaming reader: by theorem C13_stream_agrees its verdict and output are those of
     [unpack] for every oracle, so the expected result is computed with [unpack] *)
  | ("stream" | "streamword" | "streamfull") :: h :: _ -> print_endline (show (unpack (bytes_of_hex h)))
  (* NewPackedEncoder packs the segment table and every segment separately (Encoder.writePacked):
     the concatenation of the packed pieces *)
  | "encpacked" :: pieces ->
    let rec go acc = function
      | [] -> Some acc
      | h :: r -> (match pack_bytes (bytes_of_hex h) with Some l -> go (acc @ l) r | None -> None) in
    print_endline (match go [] pieces with Some l -> "ok " ^ hex_of_bytes l | None -> "panic")
  (* MarshalPacked packs the whole frame at once *)
  | "marshalpacked" :: h :: _ ->
    print_endline (match pack_bytes (bytes_of_hex h) with Some l -> "ok " ^ hex_of_bytes l | None -> "panic")
  (* a packed stream of frames through the Decoder: acceptable iff the one-shot decoder accepts it
     and its output ends on a frame boundary (cumulative unpacked frame lengths are given) *)
  | "decpacked" :: h :: lens :: _ ->
    let ls = List.map int_of_string (String.split_on_char ',' lens) in
    print_endline (match unpack (bytes_of_hex h) with
      | None -> "rej"
      | Some out ->
        let n = List.length out in
        if n = 0 then "acc 0" else
        let rec find k = function [] -> "rej" | l :: r -> if l = n then Printf.sprintf "acc %d" k else find (k + 1) r in
        find 1 ls)
  | [] -> ()
  | _ -> print_endline "bad-case")
