(* C11 driver.  One history per line:
     seq <step> <step> ...
   steps:  F:<caps>:<ord>  R:<ord>  S:<path>:<g>  V:<path>:<g>  C:<path>:<slot>  K:<slot>:<g>
           Q:<slot>:<g>  L  W  U:<n>  Z (owner waits for Done, then releases the result)
   path = e | f.f.f ; caps = - | path=k,path=k ; ord = - | path,path ; g = 0|1
   The i-th step launches thread i; after each launch all launched threads run to quiescence
   (lowest enabled first).  Output: per step "i:" + completions cJ=<outcome> and deliveries
   dJ=<dest> that happened in that phase (sorted), "HANG" when a launched thread waits for a
   mutex nobody will release (the implementation never reaches quiescence there), and at the
   end the threads still blocked and whether mu is free.
   Argument: -variant asfound|f11fixed|fixed (default fixed). *)
open Model
open Zutil

let variant = ref fixed
let () =
  let a = Array.to_list Sys.argv in
  let rec go = function
    | "-variant" :: v :: r ->
      variant := (match v with "asfound" -> as_found | "f11fixed" -> f11_fixed | "latefixed" -> late_fixed | _ -> fixed); go r
    | _ :: r -> go r
    | [] -> () in
  go a

let path_of s : z list =
  if s = "e" then [] else List.map (fun x -> z_of_int (int_of_string x)) (String.split_on_char '.' s)
let paths_of s = if s = "-" then [] else List.map path_of (String.split_on_char ',' s)
let caps_of s =
  if s = "-" then [] else
    List.map (fun kv -> match String.split_on_char '=' kv with
        | [p; k] -> (path_of p, z_of_int (int_of_string k))
        | _ -> failwith "caps") (String.split_on_char ',' s)
let g_of s = s = "1"

let op_of (s : string) : op =
  match String.split_on_char ':' s with
  | ["F"; caps; ord] -> OFulfill (caps_of caps, paths_of ord)
  | ["R"; ord] -> OReject (paths_of ord)
  | [("S" | "V"); p; g] -> OSend (path_of p, g_of g)
  | ["C"; p; s] -> OClient (path_of p, z_of_int (int_of_string s))
  | [("K" | "Q"); s; g] -> OCall (z_of_int (int_of_string s), g_of g)
  | ["L"] -> ORelease
  | ["W"] -> OWait
  | ["Z"] -> OConsume
  | ["U"; n] -> OUngate (nat_of_int (int_of_string n))
  | _ -> failwith ("bad step " ^ s)

let dest_s = function
  | DCaller -> "caller" | DCap k -> "cap" ^ string_of_int (int_of_z k) | DRej -> "rej" | DFail -> "fail"
let out_s = function
  | ONone -> "none" | ORet | ONoop -> "ret" | OPanic -> "panic" | ONoSlot -> "noslot"
  | OStruct true -> "ok" | OStruct false -> "rej"
  | OHandle (HProxy x) -> "p" ^ string_of_int (int_of_nat x)
  | OHandle (HDirect d) -> dest_s d

(* quiescence fuel: built once (nat is unary; building it per phase dominated the run time) *)
let fuel = nat_of_int 4000

let rec take n l = if n = 0 then [] else match l with [] -> [] | x :: r -> x :: take (n - 1) r

let run_seq (ops : op list) : string =
  let n = List.length ops in
  let b = Buffer.create 256 in
  let c = ref (init ops) in
  let hang = ref false in
  let i = ref 0 in
  while !i < n && not !hang do
    let before = !c in
    (match quiesce !variant fuel before (nat_of_int (!i + 1)) with
     | None -> Buffer.add_string b "FUEL"; hang := true
     | Some c' ->
       c := c';
       let items = ref [] in
       (* new deliveries *)
       let ne = List.length c'.events - List.length before.events in
       List.iter (function
           | EDeliver (t, d) -> items := (int_of_nat t, 1, Printf.sprintf "d%d=%s" (int_of_nat t) (dest_s d)) :: !items
           | _ -> ()) (take ne c'.events);
       (* new completions *)
       List.iteri (fun j th ->
           if j <= !i && finished c' (nat_of_int j) && not (finished before (nat_of_int j)) then
             items := (j, 0, Printf.sprintf "c%d=%s" j (out_s th.t_out)) :: !items) c'.threads;
       let items = List.sort compare !items in
       (* a launched thread waiting for a mutex at quiescence: the implementation never gets
          to the end of this phase (synctest.Wait does not return) *)
       let stuck_on_mu = ref false in
       for j = 0 to !i do
         if (not (finished c' (nat_of_int j))) && wants_mu c' (nat_of_int j) && not (mu_free c') then stuck_on_mu := true
       done;
       if !stuck_on_mu then (Buffer.add_string b " HANG"; hang := true)
       else begin
         if !i > 0 then Buffer.add_char b '|';
         Buffer.add_string b (string_of_int !i ^ ":");
         Buffer.add_string b (String.concat "," (List.map (fun (_, _, s) -> s) items))
       end);
    incr i
  done;
  if not !hang then begin
    let st = ref [] in
    for j = n - 1 downto 0 do if not (finished !c (nat_of_int j)) then st := string_of_int j :: !st done;
    Buffer.add_string b (" stuck=" ^ (if !st = [] then "-" else String.concat "," !st));
    Buffer.add_string b (if mu_free !c then " mu=free" else " mu=held")
  end;
  Buffer.contents b

(* ---------------------------------------------------------------- histories with Join
   join <np> <step> ...   steps as above with the promise index after '@':
     F@k:<caps>:-  R@k:-  S@k:<path>:<g>  V@k:<path>:<g>  C@k:<path>:<slot>  L@k  W@k  J@k:<parent>
     K:<slot>:<g>  Q:<slot>:<g>  U:<n> *)
let jvariant = ref jfixed
let () =
  let rec go = function
    | "-jvariant" :: v :: r ->
      jvariant := (match v with "seed3" -> jseed3 | "f11c" -> jf11c | _ -> jfixed); go r
    | _ :: r -> go r
    | [] -> () in
  go (Array.to_list Sys.argv)

let jop_of (s : string) : jop =
  match String.split_on_char ':' s with
  | [] -> failwith "empty"
  | hd :: rest ->
    let kind, k = match String.split_on_char '@' hd with
      | [a; b] -> a, nat_of_int (int_of_string b)
      | [a] -> a, nat_of_int 0
      | _ -> failwith ("bad step " ^ s) in
    (match kind, rest with
     | "F", [caps; _] -> JFulfill (k, caps_of caps)
     | "R", [_] -> JReject k
     | ("S" | "V"), [p; g] -> JSend (k, path_of p, g_of g)
     | "C", [p; sl] -> JClient (k, path_of p, z_of_int (int_of_string sl))
     | ("K" | "Q"), [sl; g] -> JCall (z_of_int (int_of_string sl), g_of g)
     | "L", [] -> JRelease k
     | "W", [] -> JWait k
     | "J", [par] -> JJoin (k, nat_of_int (int_of_string par))
     | "U", [n] -> JUngate (nat_of_int (int_of_string n))
     | _ -> failwith ("bad step " ^ s))

let run_join (np : int) (ops : jop list) : string =
  let n = List.length ops in
  let b = Buffer.create 256 in
  let c = ref (jinit (nat_of_int np) ops) in
  let hang = ref false in
  let i = ref 0 in
  while !i < n && not !hang do
    let before = !c in
    (match jquiesce !jvariant fuel before (nat_of_int (!i + 1)) with
     | None -> Buffer.add_string b "FUEL"; hang := true
     | Some c' ->
       c := c';
       let items = ref [] in
       let ne = List.length c'.jevents - List.length before.jevents in
       List.iter (function
           | EDeliver (t, d) -> items := (int_of_nat t, 1, Printf.sprintf "d%d=%s" (int_of_nat t) (dest_s d)) :: !items
           | _ -> ()) (take ne c'.jevents);
       List.iteri (fun j th ->
           if j <= !i && jfinished c' (nat_of_int j) && not (jfinished before (nat_of_int j)) then
             items := (j, 0, Printf.sprintf "c%d=%s" j (out_s th.j_out)) :: !items) c'.jthreads;
       let items = List.sort compare !items in
       let stuck_on_mu = ref false in
       for j = 0 to !i do
         if jmutex_blocked c' (nat_of_int j) then stuck_on_mu := true
       done;
       if !stuck_on_mu then (Buffer.add_string b " HANG"; hang := true)
       else begin
         if !i > 0 then Buffer.add_char b '|';
         Buffer.add_string b (string_of_int !i ^ ":");
         Buffer.add_string b (String.concat "," (List.map (fun (_, _, s) -> s) items))
       end);
    incr i
  done;
  if not !hang then begin
    let st = ref [] in
    for j = n - 1 downto 0 do if not (jfinished !c (nat_of_int j)) then st := string_of_int j :: !st done;
    Buffer.add_string b (" stuck=" ^ (if !st = [] then "-" else String.concat "," !st));
    Buffer.add_string b (if all_mu_free !c then " mu=free" else " mu=held")
  end;
  Buffer.contents b

let () = iter_lines (fun line ->
  match split_ws line with
  | "join" :: np :: steps ->
    print_endline (try run_join (int_of_string np) (List.map jop_of steps) with Failure m -> "bad-case " ^ m)
  | "seq" :: steps -> print_endline (try run_seq (List.map op_of steps) with Failure m -> "bad-case " ^ m)
  | [] -> ()
  | _ -> print_endline "bad-case")
