(* C11 driver.  One history per line:
     seq <step> <step> ...
   steps:  F:<caps>:<ord>  R:<ord>  S:<path>:<g>  V:<path>:<g>  C:<path>:<slot>  K:<slot>:<g>
           Q:<slot>:<g>  L  W  U:<n>  Z (owner waits for Done, then releases the result)
   path = e | f.f.f ; caps = - | path=k,path=k ; ord = - | path,path ; g = 0|1
   The i-th step launches thread i; after each launch all launched threads run to quiescence
   (lowest enabled first).  Output: per step "i:" + completions cJ=<outcome> and deliveries
   dJ=<dest> that happened in that phase (sorted), "HANG" when a launched thread waits for a
   mutex nobody will release (the implementation never reaches quiescence there), and at the
   end the threads still blocked and whether mu is free.
   Argument: -variant asfound|f11fixed|fixed (default fixed). *)
open Model
open Zutil

let variant = ref fixed
let () =
  let a = Array.to_list Sys.argv in
  let rec go = function
    | "-variant" :: v :: r ->
      variant := (match v with "asfound" -> as_found | "f11fixed" -> f11_fixed | "latefixed" -> late_fixed | _ -> fixed); go r
    | _ :: r -> go r
    | [] -> () in
  go a

let path_of s : z list =
  if s = "e" then [] else List.map (fun x -> z_of_int (int_of_string x)) (String.split_on_char '.' s)
let paths_of s = if s = "-" then [] else List.map path_of (String.split_on_char ',' s)
let caps_of s =
  if s = "-" then [] else
    List.map (fun kv -> match String.split_on_char '=' kv with
        | [p; k] -> (path_of p, z_of_int (int_of_string k))
        | _ -> failwith "caps") (String.split_on_char ',' s)
let g_of s = s = "1"

let op_of (s : string) : op =
  match String.split_on_char ':' s with
  | ["F"; caps; ord] -> OFulfill (caps_of caps, paths_of ord)
  | ["R"; ord] -> OReject (paths_of ord)
  | [("S" | "V"); p; g] -> OSend (path_of p, g_of g)
  | ["C"; p; s] -> OClient (path_of p, z_of_int (int_of_string s))
  | [("K" | "Q"); s; g] -> OCall (z_of_int (int_of_string s), g_of g)
  | ["L"] -> ORelease
  | ["W"] -> OWait
  | ["Z"] -> OConsume
  | ["U"; n] -> OUngate (nat_of_int (int_of_string n))
  | _ -> failwith ("bad step " ^ s)

let dest_s = function
  | DCaller -> "caller" | DCap k -> "cap" ^ string_of_int (int_of_z k) | DRej -> "rej" | DFail -> "fail"
let out_s = function
  | ONone -> "none" | ORet | ONoop -> "ret" | OPanic -> "panic" | ONoSlot -> "noslot"
  | OStruct true -> "ok" | OStruct false -> "rej"
  | OHandle (HProxy x) -> "p" ^ string_of_int (int_of_nat x)
  | OHandle (HDirect d) -> dest_s d

(* quiescence fuel: built once (nat is unary; building it per phase dominated the run time) *)
let fuel = nat_of_int 4000

(* proxy names are canonical: p0, p1, ... in the order of first appearance in the observation (the harness
   numbers new proxies that way; the model's creation order depends on the interleaving) *)
let canon_proxies (obs : string) : string =
  let n = String.length obs in
  let b = Buffer.create n in
  let tbl = Hashtbl.create 8 in
  let i = ref 0 in
  while !i < n do
    if obs.[!i] = '=' && !i + 2 < n && obs.[!i + 1] = 'p' && obs.[!i + 2] >= '0' && obs.[!i + 2] <= '9' then begin
      let j = ref (!i + 2) in
      while !j < n && obs.[!j] >= '0' && obs.[!j] <= '9' do incr j done;
      let old = String.sub obs (!i + 2) (!j - !i - 2) in
      let nw = match Hashtbl.find_opt tbl old with
        | Some x -> x
        | None -> let x = string_of_int (Hashtbl.length tbl) in Hashtbl.add tbl old x; x in
      Buffer.add_string b ("=p" ^ nw);
      i := !j
    end else (Buffer.add_char b obs.[!i]; incr i)
  done;
  Buffer.contents b

let rec take n l = if n = 0 then [] else match l with [] -> [] | x :: r -> x :: take (n - 1) r

let run_seq (ops : op list) : string =
  let n = List.length ops in
  let b = Buffer.create 256 in
  let c = ref (init ops) in
  let hang = ref false in
  let i = ref 0 in
  while !i < n && not !hang do
    let before = !c in
    (match quiesce !variant fuel before (nat_of_int (!i + 1)) with
     | None -> Buffer.add_string b "FUEL"; hang := true
     | Some c' ->
       c := c';
       let items = ref [] in
       (* new deliveries *)
       let ne = List.length c'.events - List.length before.events in
       List.iter (function
           | EDeliver (t, d) -> items := (int_of_nat t, 1, Printf.sprintf "d%d=%s" (int_of_nat t) (dest_s d)) :: !items
           | _ -> ()) (take ne c'.events);
       (* new completions *)
       List.iteri (fun j th ->
           if j <= !i && finished c' (nat_of_int j) && not (finished before (nat_of_int j)) then
             items := (j, 0, Printf.sprintf "c%d=%s" j (out_s th.t_out)) :: !items) c'.threads;
       let items = List.sort compare !items in
       (* a launched thread waiting for a mutex at quiescence: the implementation never gets
          to the end of this phase (synctest.Wait does not return) *)
       let stuck_on_mu = ref false in
       for j = 0 to !i do
         if (not (finished c' (nat_of_int j))) && wants_mu c' (nat_of_int j) && not (mu_free c') then stuck_on_mu := true
       done;
       if !stuck_on_mu then (Buffer.add_string b " HANG"; hang := true)
       else begin
         if !i > 0 then Buffer.add_char b '|';
         Buffer.add_string b (string_of_int !i ^ ":");
         Buffer.add_string b (String.concat "," (List.map (fun (_, _, s) -> s) items))
       end);
    incr i
  done;
  if not !hang then begin
    let st = ref [] in
    for j = n - 1 downto 0 do if not (finished !c (nat_of_int j)) then st := string_of_int j :: !st done;
    Buffer.add_string b (" stuck=" ^ (if !st = [] then "-" else String.concat "," !st));
    Buffer.add_string b (if mu_free !c then " mu=free" else " mu=held")
  end;
  Buffer.contents b

(* ---------------------------------------------------------------- histories with Join
   join <np> <step> ...   steps as above with the promise index after '@':
     F@k:<caps>:-  R@k:-  S@k:<path>:<g>  V@k:<path>:<g>  C@k:<path>:<slot>  L@k  W@k  J@k:<parent>
     K:<slot>:<g>  Q:<slot>:<g>  U:<n> *)
let jvariant = ref jfixed
let () =
  let rec go = function
    | "-jvariant" :: v :: r ->
      jvariant := (match v with "seed3" -> jseed3 | "f11c" -> jf11c | "refs1" -> jrefs1 | _ -> jfixed); go r
    | _ :: r -> go r
    | [] -> () in
  go (Array.to_list Sys.argv)

(* -incfile PATH: one line per history whose exploration went over budget *)
let incfile = ref ""
let () =
  let rec go = function
    | "-incfile" :: f :: r -> incfile := f; go r
    | _ :: r -> go r
    | [] -> () in
  go (Array.to_list Sys.argv)

let note_inconclusive (line : string) =
  prerr_endline "inconclusive: exploration budget";
  if !incfile <> "" then begin
    let oc = open_out_gen [Open_append; Open_creat] 0o644 !incfile in
    output_string oc (line ^ "\n"); close_out oc
  end

(* When the set of allowed outcomes could not be computed, the observation is still checked against what
   the theorems say about every run: nothing hangs or stays blocked (histories are closed: every gate is
   released and every promise is resolved), mu free, and every pipelined call that returned was delivered
   exactly once (a call on an empty slot: not at all). *)
let obs_satisfies_invariants (steps : string list) (obs : string) : bool =
  let contains s sub =
    let n = String.length s and m = String.length sub in
    let rec go i = i + m <= n && (String.sub s i m = sub || go (i + 1)) in go 0 in
  let ends_ok = contains obs " stuck=- mu=free" in
  let bad = contains obs "HANG" || contains obs "LEAK" || contains obs "CRASH" || contains obs "+" in
  let body = match String.index_opt obs ' ' with Some i -> String.sub obs 0 i | None -> obs in
  let items = List.concat_map (fun ph ->
      match String.index_opt ph ':' with
      | Some i -> String.split_on_char ',' (String.sub ph (i + 1) (String.length ph - i - 1))
      | None -> []) (String.split_on_char '|' body) in
  let count pre = List.length (List.filter (fun it -> String.length it >= String.length pre && String.sub it 0 (String.length pre) = pre) items) in
  let ok = ref (ends_ok && not bad) in
  List.iteri (fun j st ->
      if String.length st > 0 && (st.[0] = 'S' || st.[0] = 'V' || st.[0] = 'K' || st.[0] = 'Q') then begin
        let c = "c" ^ string_of_int j ^ "=" and d = "d" ^ string_of_int j ^ "=" in
        let noslot = List.mem (c ^ "noslot") items in
        if count c <> 1 then ok := false;
        if noslot then (if count d <> 0 then ok := false) else if count d <> 1 then ok := false
      end) (List.filter (fun x -> x <> "{" && x <> "}") steps);
  !ok

let jop_of (s : string) : jop =
  match String.split_on_char ':' s with
  | [] -> failwith "empty"
  | hd :: rest ->
    let kind, k = match String.split_on_char '@' hd with
      | [a; b] -> a, nat_of_int (int_of_string b)
      | [a] -> a, nat_of_int 0
      | _ -> failwith ("bad step " ^ s) in
    (match kind, rest with
     | "F", [caps; _] -> JFulfill (k, caps_of caps)
     | "R", [_] -> JReject k
     | ("S" | "V"), [p; g] -> JSend (k, path_of p, g_of g)
     | "C", [p; sl] -> JClient (k, path_of p, z_of_int (int_of_string sl))
     | ("K" | "Q"), [sl; g] -> JCall (z_of_int (int_of_string sl), g_of g)
     | "L", [] -> JRelease k
     | "W", [] -> JWait k
     | "J", [par] -> JJoin (k, nat_of_int (int_of_string par))
     | "U", [n] -> JUngate (nat_of_int (int_of_string n))
     | _ -> failwith ("bad step " ^ s))

let run_join (np : int) (ops : jop list) : string =
  let n = List.length ops in
  let b = Buffer.create 256 in
  let c = ref (jinit (nat_of_int np) ops) in
  let hang = ref false in
  let i = ref 0 in
  while !i < n && not !hang do
    let before = !c in
    (match jquiesce !jvariant fuel before (nat_of_int (!i + 1)) with
     | None -> Buffer.add_string b "FUEL"; hang := true
     | Some c' ->
       c := c';
       let items = ref [] in
       let ne = List.length c'.jevents - List.length before.jevents in
       List.iter (function
           | JEDeliver (t, _, d) | JEDirect (t, d) -> items := (int_of_nat t, 1, Printf.sprintf "d%d=%s" (int_of_nat t) (dest_s d)) :: !items
           | _ -> ()) (take ne c'.jevents);
       List.iteri (fun j th ->
           if j <= !i && jfinished c' (nat_of_int j) && not (jfinished before (nat_of_int j)) then
             items := (j, 0, Printf.sprintf "c%d=%s" j (out_s th.j_out)) :: !items) c'.jthreads;
       let items = List.sort compare !items in
       let stuck_on_mu = ref false in
       for j = 0 to !i do
         if jmutex_blocked c' (nat_of_int j) then stuck_on_mu := true
       done;
       if !stuck_on_mu then (Buffer.add_string b " HANG"; hang := true)
       else begin
         if !i > 0 then Buffer.add_char b '|';
         Buffer.add_string b (string_of_int !i ^ ":");
         Buffer.add_string b (String.concat "," (List.map (fun (_, _, s) -> s) items))
       end);
    incr i
  done;
  if not !hang then begin
    let st = ref [] in
    for j = n - 1 downto 0 do if not (jfinished !c (nat_of_int j)) then st := string_of_int j :: !st done;
    Buffer.add_string b (" stuck=" ^ (if !st = [] then "-" else String.concat "," !st));
    Buffer.add_string b (if all_mu_free !c then " mu=free" else " mu=held")
  end;
  Buffer.contents b

(* ---------------------------------------------------------------- concurrent launch groups
   par <np> <step> ... { <step> ... } <step> ... !<observation of the implementation, ' ' -> '~'>
   The steps between the braces are launched together; the model explores every interleaving of the launched
   threads' sections up to quiescence and continues the rest of the history from every quiescent configuration
   reached.  Printed: the implementation's observation if it is one of the outcomes the model allows, otherwise
   the first allowed outcome (so the lines differ). *)
let jitems before after hi =
  let items = ref [] in
  let ne = List.length after.jevents - List.length before.jevents in
  List.iter (function
      | JEDeliver (t, _, d) | JEDirect (t, d) -> items := (int_of_nat t, 1, Printf.sprintf "d%d=%s" (int_of_nat t) (dest_s d)) :: !items
      | _ -> ()) (take ne after.jevents);
  List.iteri (fun j th ->
      if j <= hi && jfinished after (nat_of_int j) && not (jfinished before (nat_of_int j)) then
        items := (j, 0, Printf.sprintf "c%d=%s" j (out_s th.j_out)) :: !items) after.jthreads;
  String.concat "," (List.map (fun (_, _, s) -> s) (List.sort compare !items))

let jblocked c hi =
  let r = ref false in
  for j = 0 to hi do if jmutex_blocked c (nat_of_int j) then r := true done; !r

module CH = Hashtbl.Make (struct
    type t = jconfig
    let equal = (=)
    let hash = Hashtbl.hash_param 400 600
  end)

let explore c hi : jconfig list =
  let seen = CH.create 256 in
  let res = ref [] in
  let budget = ref 300000 in
  let rec go c =
    if !budget > 0 && not (CH.mem seen c) then begin
      decr budget;
      CH.add seen c ();
      let en = List.filter (fun t -> jenabled !jvariant c (nat_of_int t)) (List.init (hi + 1) (fun x -> x)) in
      if en = [] then res := c :: !res
      else List.iter (fun t -> match jstep !jvariant c (nat_of_int t) with Some c' -> go c' | None -> ()) en
    end in
  go c;
  if !budget <= 0 then failwith "exploration budget";
  !res

let run_par ?(full = true) (np : int) (toks : string list) : string list =
  (* split into prefix, group, suffix *)
  let rec split acc = function
    | "{" :: r -> (List.rev acc, r) | x :: r -> split (x :: acc) r | [] -> (List.rev acc, []) in
  let pre, rest = split [] toks in
  let rec split2 acc = function
    | "}" :: r -> (List.rev acc, r) | x :: r -> split2 (x :: acc) r | [] -> (List.rev acc, []) in
  let grp, suf = split2 [] rest in
  let ops = List.map jop_of (pre @ grp @ suf) in
  let n = List.length ops in
  let g0 = List.length pre and g1 = List.length pre + List.length grp in
  let finish b c =
    let st = ref [] in
    for j = n - 1 downto 0 do if not (jfinished c (nat_of_int j)) then st := string_of_int j :: !st done;
    b ^ " stuck=" ^ (if !st = [] then "-" else String.concat "," !st) ^ (if all_mu_free c then " mu=free" else " mu=held") in
  (* sequenced steps from index i, accumulated text b *)
  let rec seq i b c : string list =
    if i >= n then [finish b c]
    else if i = g0 && g1 > g0 then begin
      let outs = explore c (g1 - 1) in
      List.concat_map (fun c' ->
          if jblocked c' (g1 - 1) then [b ^ " HANG"]
          else seq g1 (b ^ (if i > 0 then "|" else "") ^ string_of_int i ^ ":" ^ jitems c c' (g1 - 1)) c') outs
    end else
      (* a single launch: the threads it wakes may still run in any order (explored when [full]) *)
      let outs =
        if full then explore c i
        else match jquiesce !jvariant fuel c (nat_of_int (i + 1)) with Some c' -> [c'] | None -> [] in
      List.concat_map (fun c' ->
          if jblocked c' i then [b ^ " HANG"]
          else seq (i + 1) (b ^ (if i > 0 then "|" else "") ^ string_of_int i ^ ":" ^ jitems c c' i) c') outs in
  List.sort_uniq compare (List.map canon_proxies (seq 0 "" (jinit (nat_of_int np) ops)))

let () = iter_lines (fun line ->
  match split_ws line with
  | "par" :: np :: toks ->
    let impl, toks = List.partition (fun x -> String.length x > 0 && x.[0] = '!') toks in
    let impl = match impl with
      | x :: _ -> String.map (fun ch -> if ch = '~' then ' ' else ch) (String.sub x 1 (String.length x - 1))
      | [] -> "" in
    let impl_raw = impl in
    let impl = canon_proxies impl in
    print_endline (try
                     let quick = run_par ~full:false (int_of_string np) toks in
                     (* exploration over budget (many goroutines woken at once): inconclusive, the observation
                        is accepted and counted on stderr *)
                     let allowed = if List.mem impl quick then quick
                       else (try run_par ~full:true (int_of_string np) toks
                             with Failure "exploration budget" ->
                               note_inconclusive line;
                               if obs_satisfies_invariants toks impl then [impl]
                               else ["inconclusive (exploration budget) and the observation breaks the invariants"]) in
                     if List.mem impl allowed then impl_raw
                     else (match allowed with a :: _ -> a ^ " [" ^ string_of_int (List.length allowed) ^ " outcomes allowed]" | [] -> "none")
                   with Failure m -> "bad-case " ^ m)
  | "join" :: np :: toks when List.exists (fun x -> String.length x > 0 && x.[0] = '!') toks ->
    (* sequenced launches; what a launch wakes may run in any order: same treatment as "par" *)
    let impl, toks = List.partition (fun x -> String.length x > 0 && x.[0] = '!') toks in
    let impl = match impl with
      | x :: _ -> String.map (fun ch -> if ch = '~' then ' ' else ch) (String.sub x 1 (String.length x - 1))
      | [] -> "" in
    let impl_raw = impl in
    let impl = canon_proxies impl in
    print_endline (try
                     let quick = run_par ~full:false (int_of_string np) toks in
                     (* exploration over budget (many goroutines woken at once): inconclusive, the observation
                        is accepted and counted on stderr *)
                     let allowed = if List.mem impl quick then quick
                       else (try run_par ~full:true (int_of_string np) toks
                             with Failure "exploration budget" ->
                               note_inconclusive line;
                               if obs_satisfies_invariants toks impl then [impl]
                               else ["inconclusive (exploration budget) and the observation breaks the invariants"]) in
                     if List.mem impl allowed then impl_raw
                     else (match allowed with a :: _ -> a ^ " [" ^ string_of_int (List.length allowed) ^ " outcomes allowed]" | [] -> "none")
                   with Failure m -> "bad-case " ^ m)
  | "join" :: np :: steps ->
    print_endline (try canon_proxies (run_join (int_of_string np) (List.map jop_of steps)) with Failure m -> "bad-case " ^ m)
  | "seq" :: steps -> print_endline (try run_seq (List.map op_of steps) with Failure m -> "bad-case " ^ m)
  | [] -> ()
  | _ -> print_endline "bad-case")
