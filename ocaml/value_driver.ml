(* driver around the extracted Value models (C17 Equal, C18 Canonicalize).
   argv: c17|c18 [prefix]   ("prefix" = the code as found: F01 / F04 / O2 repairs off)

   c17 case:  KIND SAME  ARENA T D SEGS CAPS SEL  ARENA T D SEGS CAPS SEL
      obs:    RES RLA RLB SPEC TREEA TREEB
   c18 case:  KIND GROUP ARENA T D SEGS CAPS SEL
      obs:    RES SPEC FLAGS TREE      (RES/SPEC = ok:<hex> | err | panic | cap | -)          *)
open Model
open Zutil

let mode = if Array.length Sys.argv > 1 then Sys.argv.(1) else "c17"
let fixed = not (Array.length Sys.argv > 2 && Sys.argv.(2) = "prefix")

let z_of_dec (s : string) : z =
  let ten = z_of_int 10 in
  let acc = ref Z0 in
  String.iter (fun c -> acc := Z.add (Z.mul !acc ten) (z_of_int (Char.code c - 48))) s; !acc
let rec dec_of_z (x : z) : string =
  match x with
  | Z0 -> "0"
  | Zneg p -> "-" ^ dec_of_z (Zpos p)
  | Zpos _ ->
    let ten = z_of_int 10 in
    let rec go x acc = match x with Z0 -> acc | _ ->
      let q = Z.div x ten and r = Z.modulo x ten in go q (string_of_int (int_of_z r) ^ acc) in
    go x ""

let rec tree_str (b : Buffer.t) (t : tree) : unit =
  let list_of ts = List.iteri (fun i t -> if i > 0 then Buffer.add_char b ','; tree_str b t) ts in
  match t with
  | TNull -> Buffer.add_char b '0'
  | TErr -> Buffer.add_char b 'E'
  | TPanic -> Buffer.add_char b '!'
  | TFuel -> Buffer.add_char b 'F'
  | TCap i -> Buffer.add_string b ("C" ^ dec_of_z i)
  | TStruct (d, ps) -> Buffer.add_string b ("S(" ^ hex_of_bytes d ^ "|"); list_of ps; Buffer.add_char b ')'
  | TPtrs (n, es) -> Buffer.add_string b ("L" ^ dec_of_z n ^ "["); list_of es; Buffer.add_char b ']'
  | TComp (n, sz, es) ->
    Buffer.add_string b (Printf.sprintf "M%s:%s:%s[" (dec_of_z n) (dec_of_z sz.dataSize) (dec_of_z sz.pointerCount));
    list_of es; Buffer.add_char b ']'
  | TPrim (w, n, vs) ->
    Buffer.add_string b (Printf.sprintf "V%s:%s[" (dec_of_z w) (dec_of_z n));
    List.iteri (fun i v -> if i > 0 then Buffer.add_char b ','; Buffer.add_string b (dec_of_z v)) vs;
    Buffer.add_char b ']'
  | TBits (n, vs) ->
    Buffer.add_string b (Printf.sprintf "B%s[" (dec_of_z n));
    List.iter (fun v -> Buffer.add_char b (if v then '1' else '0')) vs;
    Buffer.add_char b ']'
let tree_s t = let b = Buffer.create 256 in tree_str b t; Buffer.contents b

let seg_of s =
  if String.length s > 0 && s.[0] = 'Z' then begin
    match String.split_on_char ':' (String.sub s 1 (String.length s - 1)) with
    | [n; h] -> let pre = bytes_of_hex (if h = "" then "-" else h) in
      let n = int_of_string n in
      pre @ List.init (max 0 (n - List.length pre)) (fun _ -> Z0)
    | _ -> failwith "bad Z segment"
  end else bytes_of_hex s
let segs_of s = if s = "_" || s = "" then [] else List.map seg_of (String.split_on_char ',' s)
(* table tokens: k = client k (0 = nil), n = promised client resolved to null (identity: nil),
   r<k> = promised client resolved to client k (identity: k) -- identity is IsSame after resolution *)
let cap_of_tok t =
  if t = "n" then Z0
  else if String.length t > 0 && t.[0] = 'r' then z_of_dec (String.sub t 1 (String.length t - 1))
  else z_of_dec t
let caps_of s = if s = "-" || s = "_" then [] else List.map cap_of_tok (String.split_on_char ',' s)
let sel_of s = if s = "r" then SelRoot else SelField (z_of_dec (String.sub s 1 (String.length s - 1)))
let cfg t d = { cfg_T = z_of_dec t; cfg_D = z_of_dec d; cfg_strict = true; cfg_root = true }
let rdfix = { fx_depth = true; fx_upgrade = true; fx_bit = true }

(* walker caps / generous limits shared with the Go side *)
let dcap = z_of_int 65536
let pcap_i = 4096
let pcap = z_of_int pcap_i
let wfuel = nat_of_int 40
let gen_T = "1048576"

(* a declared length beyond the walker's cap: the tree is not complete *)
let rec small (t : tree) : bool =
  let le n = match n with Zneg _ -> true | _ -> int_of_z (Z.min n (z_of_int (pcap_i + 1))) <= pcap_i in
  match t with
  | TStruct (_, ps) -> List.for_all small ps
  | TPtrs (n, es) | TComp (n, _, es) -> le n && List.for_all small es
  | TPrim (_, n, _) | TBits (n, _) -> le n
  | _ -> true

let eout_s = function EOk true -> "T" | EOk false -> "F" | EErr -> "E" | EPanic -> "panic" | EFuel -> "fuel"

let c17 f =
  match f with
  | [kind; _same; _aa; _at; _ad; asegs; _acaps; asel; _ba; _bt; _bd; bsegs; _bcaps; bsel]
    when String.length kind >= 7 && (String.sub kind 0 7 = "big/T/d" || String.sub kind 0 7 = "big/F/d") ->
    (* data-big boundary pairs: decoder + documented equality only *)
    (match spec_equal_big (cfg gen_T "0") (cfg gen_T "0") (segs_of asegs) (segs_of bsegs) (sel_of asel) (sel_of bsel) pcap with
     | Some true -> "big T" | Some false -> "big F" | None -> "big ?")
  | kind :: _ when String.length kind >= 3 && String.sub kind 0 3 = "big" -> "big"
  | [_kind; same; _aa; at; ad; asegs; acaps; asel; _ba; bt; bd; bsegs; bcaps; bsel] ->
    let same = same = "1" in
    let ma = segs_of asegs and mb = segs_of bsegs in
    let ca = caps_of acaps and cb = caps_of bcaps in
    let sa = sel_of asel and sb = sel_of bsel in
    let fx = { fx_bitlist = fixed; fx_farnull = fixed; fx_rd = rdfix } in
    let bt, bd = if same then at, ad else bt, bd in
    let ((r, rla), rlb) = run_equal (nat_of_int 200) (cfg at ad) (cfg bt bd) fx ma ca mb cb same sa sb in
    let ((spec, ta), tb) = spec_equal_v wfuel (cfg gen_T "0") (cfg gen_T "0") rdfix ma ca mb cb same sa sb dcap pcap in
    let spec_s = match spec with
      | Some (Some b) -> if b then "T" else "F"
      | Some None -> "?"          (* complete walks but no decoded value: must not happen *)
      | None -> "-" in
    Printf.sprintf "%s %s %s %s %s %s" (eout_s r) (dec_of_z rla) (dec_of_z rlb) spec_s (tree_s ta) (tree_s tb)
  | _ -> "bad-case"

let c18 f =
  match f with
  | [kind; _g; _a; _t; _d; segs; asel] when String.length kind >= 5 && String.sub kind 0 5 = "big/d" ->
    (* data-big boundary cases: decoder + specification only (the walker and the step-by-step
       model are quadratic on the list-based memory) *)
    (match spec_canon_big (cfg gen_T "0") (segs_of segs) (sel_of asel) pcap with
     | Some (Some bs) -> "big ok:" ^ hex_of_bytes bs
     | Some None -> "big cap"
     | None -> "big ?")
  | kind :: _ when String.length kind >= 3 && String.sub kind 0 3 = "big" -> "big"
  | [_kind; _group; _arena; t; d; segs; asel] ->
    let m = segs_of segs in
    let s = if String.length asel > 0 && asel.[0] = 'm' then SelRoot else sel_of asel in
    let fx = { cx_complist = fixed; cx_bitpad = fixed; cx_farnull = fixed; cx_rd = rdfix } in
    (* selector "m<i>.<j>": element j (struct view) of the list in pointer field i of the root *)
    let member = String.length asel > 0 && asel.[0] = 'm' in
    let pick c =
      if member then
        (match String.split_on_char '.' (String.sub asel 1 (String.length asel - 1)) with
         | [i; j] -> select_member c m (init_rlimit c) (z_of_dec i) (z_of_dec j)
         | _ -> failwith "bad member selector")
      else select c m (init_rlimit c) s in
    let res = match run_canon_p fixed (nat_of_int 200) (cfg t d) fx m (pick (cfg t d)) with
      | KOk bs -> "ok:" ^ hex_of_bytes bs
      | KErr -> "E" | KPanic -> "panic" | KFuel -> "fuel" in
    let (spec, tr) = spec_canon_v_p wfuel (cfg gen_T "0") rdfix m (pick (cfg gen_T "0")) dcap pcap in
    let spec_s, flags = match spec with
      | None -> "-", "-"
      | Some None -> "?", "-"     (* complete walk but no decoded value: must not happen *)
      | Some (Some None) -> "cap", "-"
      | Some (Some (Some bs)) ->
        "ok:" ^ hex_of_bytes bs,
        (match spec_recanon bs with
         | Some bs' when bs' = bs -> "R1I1G1P1K1J1"
         | _ -> "R1I1G1P0K1J1") in
    Printf.sprintf "%s %s %s %s" res spec_s flags (tree_s tr)
  | _ -> "bad-case"

(* the extracted list functions are not tail recursive: boundary-size segments (1 MiB) need a
   deep stack, so the driver re-executes itself once under a raised stack limit *)
let () =
  if Sys.getenv_opt "VALDRV_CHILD" = None then begin
    let args = String.concat " " (List.map Filename.quote (List.tl (Array.to_list Sys.argv))) in
    let cmd = Printf.sprintf "ulimit -s unlimited 2>/dev/null || ulimit -s 4000000 2>/dev/null; VALDRV_CHILD=1 exec %s %s"
        (Filename.quote Sys.executable_name) args in
    exit (Sys.command cmd)
  end

let () = iter_lines (fun line ->
  let f = split_ws line in
  print_endline (match mode with
    | "c17" -> c17 f
    | "c18" -> c18 f
    | _ -> "bad-mode"))
