(* Translation validation of gotrans, second group (coq/Gen/GoArith2.v): same protocol as
   l0_driver.ml. Error results are printed as 0 (nil) / 1. Functions with loops are run with
   the fuel below; running out of it is the observation "outoffuel". *)
open Model
open Zutil

let z = z_of_hex
let b s = match s with "1" -> true | "0" -> false | _ -> failwith "bool"
let os d p = { dataSize = z d; pointerCount = z p }
let fuel = nat_of_int 8

let rz x = [hex_of_z x]
let rb x = [if x then "1" else "0"]
let rzb (x, e) = rz x @ rb e
let ok l = "ok " ^ String.concat " " l
let opt f = function Some v -> ok (f v) | None -> "panic"
let loop f = function Done v -> f v | OutOfFuel -> "outoffuel"

let run (l : string list) : string =
  match l with
  | ["go_maxAllocSize"] -> ok (rz go_maxAllocSize)
  | ["go_nextAlloc"; c; m; r] -> loop (fun v -> ok (rzb v)) (go_nextAlloc fuel (z c) (z m) (z r))
  | ["go_hasCapacity"; c; n; s] -> ok (rb (go_hasCapacity (z c) (z n) (z s)))
  | ["go_streamHeaderSize"; m] -> ok (rz (go_streamHeaderSize (z m)))
  | ["go_segmentSize"; w; i] -> ok (rzb (go_segmentSize (z w) (z i)))
  | ["go_needsEscape"; x] -> ok (rb (go_needsEscape (z x)))
  | ["go_hexDigit"; x] -> opt rz (go_hexDigit (z x))
  | ["go_packed_min"; x; y] -> ok (rz (go_packed_min (z x) (z y)))
  | ["go_isFieldInBounds"; w; d; p; o] -> ok (rb (go_isFieldInBounds (z w) (os d p) (z o)))
  | ["go_gen_Offset"; s; n] -> ok (rz (go_gen_Offset (z s) (z n)))
  | ["go_intbits"; t] -> opt rz (go_intbits (z t))
  | ["go_intFieldDefaultMask"; v; w; i] -> opt rz (go_intFieldDefaultMask (b v) (z w) (z i))
  | [] -> ""
  | _ -> "bad-case"

let () = iter_lines (fun line -> print_endline (run (split_ws line)))
